#!/bin/bash
# Runs gluon's own test suite with the verification guard OFF (no --cfg gluon_verif) and prints a
# summary: number of passed / failed tests. Usage: baseline_off.sh [logfile]
set -u
cd /repo
export CARGO_NET_OFFLINE=true
unset RUSTFLAGS
LOG=${1:-/var/tmp/gluon-baseline-off.log}
cargo test --workspace --no-fail-fast --offline >"$LOG" 2>&1
code=$?
passed=$(grep -E "^test .* \.\.\. ok$" "$LOG" | wc -l)
failed=$(grep -E "^test .* \.\.\. FAILED$" "$LOG" | wc -l)
echo "cargo test exit=$code passed=$passed failed=$failed (expected: 896 stable passes, doc::check_links always fails offline)"
grep -E "^test .* \.\.\. FAILED$" "$LOG" | head -20
exit 0
