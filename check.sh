#!/bin/bash
# check.sh <property id> <quick|thorough>
#   rebuilds the simulator against /repo's current working tree with the guarded hooks enabled
#   (RUSTFLAGS --cfg gluon_verif comes from sim/.cargo/config.toml) and runs the batch for the
#   property. exit 0 = held, 1 = VIOLATION line printed, 2 = harness error.
set -u
PROP=${1:?property id}
TIER=${2:-${VERIF_TIER:-quick}}
cd "$(dirname "$0")/sim" || exit 2
export CARGO_NET_OFFLINE=true
export VERIF_DIR="$(cd .. && pwd)"
if ! cargo build --offline >"target-build-$PROP.log" 2>&1; then
  # a /repo that does not build cannot be checked: harness error, never a violation
  tail -40 "target-build-$PROP.log"
  echo "HARNESS-ERROR: build failed"
  exit 2
fi
rm -f "target-build-$PROP.log"
exec ./target/debug/sim batch --prop "$PROP" --tier "$TIER"
