#!/usr/bin/env python3
"""Regenerates /verif/MANIFEST.json (single source of truth for the check registry)."""
import json, subprocess

TECH = "deterministic simulation with fault injection: "
CHECKS = {
 "C05": dict(engine="gcsim", technique=TECH+"seeded search over collection schedules (forced GC at every check_collect, host collects) x host operation histories on a thread tree; replayable decision tape; differential vs natural schedule + heap-walk/quarantine invariants",
   text="Seeded random exploration: every run executes one generated operation history on a fresh VM twice (natural vs tape-decided collection schedule) and checks transparency (same rendered outcomes), no freed object reachable or dereferenced (poison+quarantine, Trace-driven heap walk after every operation), the heap ownership invariant, sweep accounting (accounted == reachable after collect) and reclamation to the measured baseline. Evidence, not proof: schedules are sampled at check_collect granularity.",
   note="Trusted: the guarded hooks in vm/src/gc.rs (owner ids, freed flag, visitor mark) report the heap faithfully; generated programs terminate; the natural-threshold execution is the reference schedule.", ref="DESIGN.md §4 C05"),
 "C06": dict(engine="faultsim", technique=TECH+"seeded histories of failing/succeeding/IO/primitive evaluations on one long-lived VM with faults injected at debug-hook yields (interrupt, allocation failure, stack limit, cancellation, collections); every step mirrored on a fresh VM; crashes attributed per seed through isolated worker processes",
   text="Seeded exploration of evaluation histories with fault injection: outcome of every step equals a brand-new VM's (or is the injected error), no panic/abort of the worker process, value stack and accounted memory return to their pre-step level after failed steps. Plus `sim primsweep`: exhaustive enumeration of every exported primitive x boundary tuple (21k calls) used during triage.",
   note="Trusted: generated programs are pure, so a fresh VM is the exact reference; worker-process death is attributed to the seed that was running.", ref="DESIGN.md §4 C06"),
 "C07": dict(engine="faultsim", technique=TECH+"limit classes: memory limit and stack limit sweeps with accounted memory sampled at every check_collect (guarded hook), tail-call families at n=10/1000/30000 compared by minimal sufficient stack limit and peak frame count, interrupt fired at a chosen CALL event with a bounded-liveness oracle (<= 3 further CALL events), native recursion through extern functions",
   text="Seeded exploration over (program family, limit) configurations: outcome is the unlimited result or the corresponding limit error, accounted memory never above the limit at any check_collect, stack restored, tail recursive families need the same stack for every n, interrupts are delivered within 3 CALL events and leave the VM usable.",
   note="Trusted: sampling points (check_collect, CALL events) are dense enough; promptness is measured in interpreter events, not wall time.", ref="DESIGN.md §4 C07"),
 "C12": dict(engine="storesim", technique=TECH+"simulated storage (FaultyWriter/FaultyReader under serde_json: short writes, EINTR, EIO, disk full, torn file, undefined references) and restart into a fresh VM, seeded fault schedules with replay",
   text="Seeded fault enumeration over the bytecode store path: each run compiles a generated program (with generated inline modules) to bytecode on a simulated disk under injected write faults, optionally tears or corrupts the file, and loads it back under injected read faults into the same / a fresh / a module-less VM. Oracles: equivalence with the source when only benign faults fired; an error (never Ok, panic or hang) for I/O errors, truncation and undefined references; VM still usable afterwards.",
   note="Trusted: serde_json as the on-disk format; a second VM in the same process stands in for a restarted process (only the byte vector survives).", ref="DESIGN.md §4 C12"),
 "C13": dict(engine="gcsim", technique=TECH+"seeded histories over a forest of VMs and thread trees: make/transfer (re_root, channel from coroutine, allocation failure during the clone)/collect/drop thread/drop VM/call, forced collections; canonical graph encoding (guarded hook) for isomorphism, Trace-driven ownership walk after every operation",
   text="Seeded exploration of transfer histories: every copy's object graph encoding (sharing and cycles included, closures and cells followed) equals the original's, stays equal after the sender is collected or dropped, received closures compute isomorphic results, and after every operation no heap holds a pointer into a heap that is neither itself nor an ancestor and no freed object is reachable.",
   note="Trusted: the guarded graph encoder and owner ids in vm/src/value.rs, gc.rs; two VMs in one process stand in for unrelated VMs.", ref="DESIGN.md §4 C13"),
 "C14": dict(engine="threadsim", technique=TECH+"token-passing scheduler over real OS threads: exactly one logical thread runs, the next holder is drawn from the decision tape at every instrumented lock acquisition (try_lock probing), debug-hook event inside running bytecode, pending future and spawn; simulator-owned executor/Spawn seam (one logical thread per import task); exact deadlock oracle (no runnable logical thread); differential against solo execution",
   text="Seeded exploration of interleavings of 2-6 logical threads (plus one logical thread per spawned import task) compiling and running programs with overlapping imports, allocation bursts and explicit/forced collections on sibling gluon threads of one VM: every operation equals its solo outcome, every module body ticks once, no panic, no freed object reachable, and a state with no runnable logical thread is reported as a deadlock with the waits-for set. Replays exactly from the recorded tape.",
   note="Trusted: the instrumented lock set (context, child_threads, global gc, import compiler mutex) covers every lock held across a scheduling point; a wait on an un-instrumented lock stalls the run and is counted inconclusive, never a violation. Interleavings between two scheduling points are not explored.", ref="DESIGN.md §4 C14"),
 "C15": dict(engine="modsim", technique=TECH+"seeded edit/evaluate/cancel histories on one long-lived VM against a brand-new VM with the current sources after every evaluation (refinement), evaluation counter per (module, version) and epoch, cancellation injected at debug-hook yields, hang = pending with no wake-up",
   text="Seeded exploration of module edit histories (value/type changes, import edges, cycles, type/parse/run-time errors in dependencies, add_module vs load_script, cancelled evaluations): every evaluation outcome equals a fresh VM's, reported cycles lie on a cycle of the current import graph, no module body runs twice between two edits, nothing hangs.",
   note="Trusted: the fresh VM is the reference; error message text is not compared (C16), only error class and cycle membership.", ref="DESIGN.md §4 C15"),
 "C16": dict(engine="detsim", technique=TECH+"history/order/thread/schedule/address/process perturbation of the environment in which one subject is compiled and run; byte-for-byte differential of (value, type text, diagnostics text); tape-controlled variants replay exactly, cross-process variant re-checked over fresh processes",
   text="Seeded exploration: the observation of a generated subject (well typed, ill typed or unparsable; with inline modules) must be byte-identical on a fresh VM, after a generated history of unrelated work, after the permuted history, on a second VM, on a child thread, under forced collections, after heap padding and in a freshly spawned process.",
   note="Trusted: process-level randomness (hasher keys, ASLR) is only varied by spawning fresh processes, it cannot be seeded.", ref="DESIGN.md §4 C16"),
 "C17": dict(engine="corosim", technique=TECH+"the simulator schedules gluon coroutines (generated resume order) and, in the multi-thread class, polls several gluon threads and fires host futures in tape order; observation log checked operation by operation against an executable reference model; hang = pending with no runnable task",
   text="Seeded exploration of coroutine interleavings and fault placements (failing thunks, self-dependent lazies, resume of dead threads, empty receives, forced collections). Every observation made through the harness extern function is compared with an executable model of channels (FIFO, exactly once, non-blocking), references (last store wins) and lazies (at most once, same value, error not hang).",
   note="Trusted: the executable model (about 300 lines) encodes the documented contracts; behaviour the property does not specify (resuming a coroutine that died, program-level deadlock) is excluded by the generator.", ref="DESIGN.md §4 C17"),
}
NA = {
 "C01":"pure function of the program text (needs an independent reference interpreter, nothing for a scheduler or fault injector to decide)",
 "C02":"pure: type soundness over programs x static compiler settings, no schedule, clock, fault or history",
 "C03":"pure function of the term (principal types)",
 "C04":"two-build differential on one input; no schedule, clock or fault",
 "C08":"pure function of the AST / token sequence",
 "C09":"input fuzzing of a pure front end; no timer, peer or fault behind the hang clause",
 "C10":"pure function of the source text",
 "C11":"pure function of the marshalled Rust value (its GC-timing aspect is inside C05's workload)",
 "C18":"pure function of (type, width)",
 "C19":"immutable single-threaded library code; operation sequences are inputs to pure functions",
 "C20":"pure function of (program, cursor offset)",
}
PLANNED = {}

def commits():
    out = subprocess.run(["git","-C","/repo","log","--format=%h %s"],capture_output=True,text=True).stdout
    return [l.split()[0] for l in out.splitlines() if l.split(' ',1)[1].startswith("verif hooks")][::-1]

m = {
 "version": 1,
 "setup_cmd": "cd /verif/sim && CARGO_NET_OFFLINE=true cargo build --offline",
 "hooks": {
  "guard": "--cfg gluon_verif (rustc cfg, no cargo feature)",
  "enable": "RUSTFLAGS '--cfg gluon_verif' from /verif/sim/.cargo/config.toml; /verif/check.sh rebuilds /verif/sim (path dependency on /repo's working tree) before every check",
  "baseline_off_cmd": "/verif/baseline_off.sh",
  "source_commits": commits(),
  "add_only": True,
 },
 "engines": [], "checks": [], "not_applicable": [],
 "notes": "All checks are `./check.sh <id> <tier>`; replay with `./sim/target/debug/sim replay <file>`; determinism self-check `./sim/target/debug/sim selfcheck --prop <id>`; mutant catalogue in mutants/. Genuine defects repaired in /repo are `fix:` commits listed in known_findings.json.",
}
engines = {}
for pid, c in sorted(CHECKS.items()):
    engines.setdefault(c["engine"], []).append(pid)
    m["checks"].append({
        "property_id": pid,
        "quick_cmd": "./check.sh %s quick" % pid,
        "thorough_cmd": "./check.sh %s thorough" % pid,
        "evidence_file": "evidence/%s.json" % pid,
        "replay_cmd_template": "./sim/target/debug/sim replay {path}",
        "engine": c["engine"],
        "technique": c["technique"],
        "level_claimed": {"category": "exploration", "text": c["text"], "design_ref": c["ref"]},
        "level_note": c["note"],
    })
for e, ps in sorted(engines.items()):
    m["engines"].append({"name": e, "path": "sim/src/props/", "serves_properties": ps, "kind_free_text": "seeded deterministic simulation engine (see DESIGN.md §4)"})
for pid, r in sorted(NA.items()):
    m["not_applicable"].append({"property_id": pid, "reason": r})
for pid, e in sorted(PLANNED.items()):
    if pid not in CHECKS:
        m["not_applicable"].append({"property_id": pid, "reason": "not claimed in this revision: engine %s not built yet (DESIGN.md §4)" % e})
json.dump(m, open("/verif/MANIFEST.json", "w"), indent=1)
print("checks:", [c["property_id"] for c in m["checks"]])
