//! Per-run global simulator state, shared by the engines and by the hook handlers installed into
//! gluon (`gluon_vm::verif`). One run at a time per process.
use std::{
    collections::BTreeMap,
    io::Write,
    sync::{Mutex, MutexGuard},
};

use serde_json::{json, Value};

use crate::tape::Tape;

#[derive(Clone, Debug)]
pub struct Violation {
    pub oracle: String,
    pub detail: String,
}

impl Violation {
    pub fn new(oracle: &str, detail: impl Into<String>) -> Violation {
        Violation {
            oracle: oracle.to_string(),
            detail: detail.into(),
        }
    }

    /// `property/oracle/normalised detail`: digits runs are replaced by `#` so that sizes and
    /// addresses do not make two occurrences of the same failure look different
    pub fn signature(&self, prop: &str) -> String {
        let mut norm = String::new();
        let mut in_digits = false;
        for c in self.detail.chars() {
            if norm.len() >= 140 {
                break;
            }
            if c.is_ascii_digit() {
                if !in_digits {
                    norm.push('#');
                }
                in_digits = true;
            } else {
                in_digits = false;
                norm.push(if c == '\n' { ' ' } else { c });
            }
        }
        format!("{}/{}/{}", prop, self.oracle, norm)
    }
}

#[derive(Clone, Debug, Default)]
pub struct RunStats {
    pub counters: BTreeMap<String, u64>,
    pub nontrivial: bool,
    pub shape_hash: u64,
    pub trace_hash: u64,
    pub sample: Option<Value>,
}

/// How forced collections are placed (in addition to gluon's own threshold)
#[derive(Clone, Debug, PartialEq)]
pub enum GcPolicy {
    Off,
    Always,
    EveryK(u64),
    /// probability x/1024 per `check_collect`
    Prob(u32),
    /// exactly at the n-th `check_collect` of the run
    Nth(u64),
}

impl GcPolicy {
    pub fn to_json(&self) -> Value {
        match self {
            GcPolicy::Off => json!("off"),
            GcPolicy::Always => json!("always"),
            GcPolicy::EveryK(k) => json!({ "every": k }),
            GcPolicy::Prob(p) => json!({ "prob1024": p }),
            GcPolicy::Nth(n) => json!({ "nth": n }),
        }
    }
    pub fn from_json(v: &Value) -> GcPolicy {
        if let Some(s) = v.as_str() {
            return if s == "always" {
                GcPolicy::Always
            } else {
                GcPolicy::Off
            };
        }
        if let Some(k) = v.get("every").and_then(|k| k.as_u64()) {
            return GcPolicy::EveryK(k.max(1));
        }
        if let Some(p) = v.get("prob1024").and_then(|k| k.as_u64()) {
            return GcPolicy::Prob(p as u32);
        }
        if let Some(n) = v.get("nth").and_then(|k| k.as_u64()) {
            return GcPolicy::Nth(n);
        }
        GcPolicy::Off
    }
    pub fn generate(rng: &mut crate::prng::Rng) -> GcPolicy {
        match rng.below(10) {
            0 => GcPolicy::Off,
            1 | 2 => GcPolicy::Always,
            3 | 4 | 5 => GcPolicy::EveryK(rng.range(2, 64) as u64),
            6 | 7 => GcPolicy::Prob(*rng.pick(&[16u32, 64, 256, 512])),
            _ => GcPolicy::Nth(rng.range(0, 400) as u64),
        }
    }
}

pub struct Sim {
    pub tape: Tape,
    pub stats: RunStats,
    pub gc_policy: GcPolicy,
    /// forced collections are only decided while this is set (engines switch it off around
    /// set-up work that is not part of the workload)
    pub gc_active: bool,
    pub gc_checks: u64,
    pub gc_forced: u64,
    /// observation log written by the harness extern functions (`sim.obs`, `sim.tick`)
    pub obs: Vec<String>,
    pub ticks: BTreeMap<String, u64>,
    pub events: u64,
    /// what the engine is doing right now (part of the detail of fatal violations)
    pub context: String,
    /// (heap id, peak accounted memory seen at a check_collect of that heap)
    pub mem_watch: Option<(u32, usize)>,
    /// heaps whose freed objects belong to a recorded finding when they are touched (heap id -> tag)
    pub tagged_heaps: BTreeMap<u32, String>,
}

static SIM: Mutex<Option<Sim>> = Mutex::new(None);

fn lock() -> MutexGuard<'static, Option<Sim>> {
    SIM.lock().unwrap_or_else(|e| e.into_inner())
}

pub fn begin(tape: Tape) {
    *lock() = Some(Sim {
        tape,
        stats: RunStats::default(),
        gc_policy: GcPolicy::Off,
        gc_active: false,
        gc_checks: 0,
        gc_forced: 0,
        obs: Vec::new(),
        ticks: BTreeMap::new(),
        events: 0,
        context: String::new(),
        mem_watch: None,
        tagged_heaps: BTreeMap::new(),
    });
}

pub fn end() -> Option<Sim> {
    lock().take()
}

pub fn with<R>(f: impl FnOnce(&mut Sim) -> R) -> R {
    let mut g = lock();
    f(g.as_mut().expect("no run active"))
}

pub fn try_with<R>(f: impl FnOnce(&mut Sim) -> R) -> Option<R> {
    let mut g = lock();
    g.as_mut().map(f)
}

pub fn count(name: &str, n: u64) {
    try_with(|s| *s.stats.counters.entry(name.to_string()).or_insert(0) += n);
}

pub fn set_context(c: impl Into<String>) {
    let c = c.into();
    try_with(|s| s.context = c);
}

pub fn set_gc(policy: GcPolicy, active: bool) {
    with(|s| {
        s.gc_policy = policy;
        s.gc_active = active;
    })
}

pub fn gc_active(active: bool) {
    with(|s| s.gc_active = active)
}

pub fn decide(kind: &str, n: u32, num: u32, den: u32) -> u32 {
    with(|s| s.tape.decide(kind, n, num, den))
}

pub fn choose(kind: &str, n: u32) -> u32 {
    with(|s| s.tape.choose(kind, n))
}

pub fn flip(kind: &str, num: u32, den: u32) -> bool {
    with(|s| s.tape.flip(kind, num, den))
}

// ---------------------------------------------------------------------------------------------
// hook handlers

fn gc_decide(heap: u32, allocated: usize, _limit: usize) -> bool {
    try_with(|s| {
        if let Some((h, peak)) = &mut s.mem_watch {
            if *h == heap && allocated > *peak {
                *peak = allocated;
            }
        }
        if !s.gc_active {
            return false;
        }
        let n = s.gc_checks;
        s.gc_checks += 1;
        let (num, den) = match s.gc_policy {
            GcPolicy::Off => return false,
            GcPolicy::Always => (1, 1),
            GcPolicy::EveryK(k) => {
                if n % k == k - 1 {
                    (1, 1)
                } else {
                    (0, 1)
                }
            }
            GcPolicy::Prob(p) => (p, 1024),
            GcPolicy::Nth(k) => {
                if n == k {
                    (1, 1)
                } else {
                    (0, 1)
                }
            }
        };
        let c = s.tape.decide("gc", 2, num, den) == 1;
        if c {
            s.gc_forced += 1;
        }
        c
    })
    .unwrap_or(false)
}

fn on_freed(kind: &'static str, owner: u32, _addr: usize) {
    if kind == "walk" {
        // the heap walker records the object itself and the engine reports it
        return;
    }
    let (context, heap_tag) = SIM
        .try_lock()
        .ok()
        .and_then(|g| g.as_ref().map(|s| (s.context.clone(), s.tagged_heaps.get(&owner).cloned())))
        .unwrap_or_default();
    // A freed (poisoned, quarantined) gc object was dereferenced / marked / walked: the run cannot
    // continue (the data is poison). Report and leave the process.
    fatal(Violation::new(
        "use-after-free",
        format!(
            "{}{} of a freed gc object owned by heap {} while: {}",
            if let Some(tag) = heap_tag {
                format!("{}: ", tag)
            } else if context.contains("module-level cell") {
                "module-level cell: ".to_string()
            } else if let (Some(a), Some(b)) = (context.find("{{"), context.find("}}")) {
                // the engine tags situations that belong to a recorded finding
                format!("{}: ", &context[a + 2..b])
            } else {
                String::new()
            },
            kind,
            owner,
            context
        ),
    ));
}

pub fn install_hooks() {
    gluon_vm::verif::install_gc_decide(Some(gc_decide));
    gluon_vm::verif::install_on_freed(Some(on_freed));
    gluon_vm::verif::set_quarantine(true);
}

// ---------------------------------------------------------------------------------------------
// reporting of fatal violations (the process exits)

pub struct Current {
    pub property: String,
    pub seed: u64,
    pub tier: String,
    pub workload: Value,
    pub tape_json: Value,
    /// where worker result lines go (None: replay mode, print to stdout)
    pub out: Option<std::fs::File>,
}

pub static CURRENT: Mutex<Option<Current>> = Mutex::new(None);

pub fn replay_json(cur: &Current, v: &Violation, tape: Option<Value>) -> Value {
    json!({
        "property": cur.property,
        "seed": cur.seed,
        "tier": cur.tier,
        "workload": cur.workload,
        "tape": tape.unwrap_or_else(|| cur.tape_json.clone()),
        "violation": { "oracle": v.oracle, "detail": v.detail },
        "signature": v.signature(&cur.property),
    })
}

pub fn fatal(v: Violation) -> ! {
    let mut cur = CURRENT.lock().unwrap_or_else(|e| e.into_inner());
    if let Some(cur) = cur.as_mut() {
        let replay = replay_json(cur, &v, None);
        match cur.out.as_mut() {
            Some(out) => {
                let _ = writeln!(out, "VIOL {} {}", cur.seed, replay);
                let _ = out.flush();
            }
            None => {
                println!("RESULT viol {}", v.signature(&cur.property));
            }
        }
    } else {
        eprintln!("fatal violation outside of a run: {:?}", v);
    }
    let _ = std::io::stdout().flush();
    std::process::exit(97);
}
