//! A minimal executor for one future: polls until completion, detects a future that is pending
//! with nobody left to wake it (a hang) instead of parking forever.
use std::{
    future::Future,
    pin::pin,
    sync::{
        atomic::{AtomicBool, Ordering},
        Arc,
    },
    task::{Context, Poll, Wake, Waker},
};

struct Flag(AtomicBool);

impl Wake for Flag {
    fn wake(self: Arc<Self>) {
        self.0.store(true, Ordering::SeqCst);
    }
    fn wake_by_ref(self: &Arc<Self>) {
        self.0.store(true, Ordering::SeqCst);
    }
}

/// What the simulated host wants after a `Pending`
pub enum Next {
    /// poll again only if a wake-up was requested (otherwise the future is stuck)
    Default,
    /// poll again regardless (the host itself changed something)
    Poll,
    /// drop the future (cancellation)
    Cancel,
}

pub enum Outcome<T> {
    Cancelled,
    Ready(T, u64),
    /// pending and no wake-up was requested: nothing can ever make progress
    Stuck(u64),
    /// more than `max_polls` polls
    PollCap,
}

/// `on_pending(n)` is called after the n-th poll returned `Pending` (the simulated host may act
/// between polls)
pub fn drive<F: Future>(fut: F, max_polls: u64, mut on_pending: impl FnMut(u64)) -> Outcome<F::Output> {
    let flag = Arc::new(Flag(AtomicBool::new(false)));
    let waker = Waker::from(flag.clone());
    let mut cx = Context::from_waker(&waker);
    let mut fut = pin!(fut);
    let mut polls = 0;
    loop {
        polls += 1;
        flag.0.store(false, Ordering::SeqCst);
        match fut.as_mut().poll(&mut cx) {
            Poll::Ready(v) => return Outcome::Ready(v, polls),
            Poll::Pending => {
                on_pending(polls);
                if !flag.0.load(Ordering::SeqCst) {
                    return Outcome::Stuck(polls);
                }
                if polls >= max_polls {
                    return Outcome::PollCap;
                }
            }
        }
    }
}

/// Like `drive` but the callback decides what happens after each `Pending`
pub fn drive_with<F: Future>(fut: F, max_polls: u64, mut on_pending: impl FnMut(u64) -> Next) -> Outcome<F::Output> {
    let flag = Arc::new(Flag(AtomicBool::new(false)));
    let waker = Waker::from(flag.clone());
    let mut cx = Context::from_waker(&waker);
    let mut fut = Box::pin(fut);
    let mut polls = 0;
    loop {
        polls += 1;
        flag.0.store(false, Ordering::SeqCst);
        match fut.as_mut().poll(&mut cx) {
            Poll::Ready(v) => return Outcome::Ready(v, polls),
            Poll::Pending => {
                match on_pending(polls) {
                    Next::Cancel => {
                        drop(fut);
                        return Outcome::Cancelled;
                    }
                    Next::Poll => {}
                    Next::Default => {
                        if !flag.0.load(Ordering::SeqCst) {
                            return Outcome::Stuck(polls);
                        }
                    }
                }
                if polls >= max_polls {
                    return Outcome::PollCap;
                }
            }
        }
    }
}
