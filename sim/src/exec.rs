//! A minimal executor for one future: polls until completion, detects a future that is pending
//! with nobody left to wake it (a hang) instead of parking forever.
use std::{
    future::Future,
    pin::pin,
    sync::{
        atomic::{AtomicBool, Ordering},
        Arc,
    },
    task::{Context, Poll, Wake, Waker},
};

struct Flag(AtomicBool);

impl Wake for Flag {
    fn wake(self: Arc<Self>) {
        self.0.store(true, Ordering::SeqCst);
    }
    fn wake_by_ref(self: &Arc<Self>) {
        self.0.store(true, Ordering::SeqCst);
    }
}

/// What the simulated host wants after a `Pending`
pub enum Next {
    /// poll again only if a wake-up was requested (otherwise the future is stuck)
    Default,
    /// poll again regardless (the host itself changed something)
    Poll,
    /// drop the future (cancellation)
    Cancel,
}

pub enum Outcome<T> {
    Cancelled,
    Ready(T, u64),
    /// pending and no wake-up was requested: nothing can ever make progress
    Stuck(u64),
    /// more than `max_polls` polls
    PollCap,
}

/// `on_pending(n)` is called after the n-th poll returned `Pending` (the simulated host may act
/// between polls)
pub fn drive<F: Future>(fut: F, max_polls: u64, mut on_pending: impl FnMut(u64)) -> Outcome<F::Output> {
    let flag = Arc::new(Flag(AtomicBool::new(false)));
    let waker = Waker::from(flag.clone());
    let mut cx = Context::from_waker(&waker);
    let mut fut = pin!(fut);
    let mut polls = 0;
    loop {
        polls += 1;
        flag.0.store(false, Ordering::SeqCst);
        match fut.as_mut().poll(&mut cx) {
            Poll::Ready(v) => return Outcome::Ready(v, polls),
            Poll::Pending => {
                on_pending(polls);
                if !flag.0.load(Ordering::SeqCst) {
                    return Outcome::Stuck(polls);
                }
                if polls >= max_polls {
                    return Outcome::PollCap;
                }
            }
        }
    }
}

/// Like `drive` but the callback decides what happens after each `Pending`
pub fn drive_with<F: Future>(fut: F, max_polls: u64, mut on_pending: impl FnMut(u64) -> Next) -> Outcome<F::Output> {
    let flag = Arc::new(Flag(AtomicBool::new(false)));
    let waker = Waker::from(flag.clone());
    let mut cx = Context::from_waker(&waker);
    let mut fut = Box::pin(fut);
    let mut polls = 0;
    loop {
        polls += 1;
        flag.0.store(false, Ordering::SeqCst);
        match fut.as_mut().poll(&mut cx) {
            Poll::Ready(v) => return Outcome::Ready(v, polls),
            Poll::Pending => {
                match on_pending(polls) {
                    Next::Cancel => {
                        drop(fut);
                        return Outcome::Cancelled;
                    }
                    Next::Poll => {}
                    Next::Default => {
                        if !flag.0.load(Ordering::SeqCst) {
                            return Outcome::Stuck(polls);
                        }
                    }
                }
                if polls >= max_polls {
                    return Outcome::PollCap;
                }
            }
        }
    }
}

// ---------------------------------------------------------------------------------------------
// A single-threaded task executor whose polling order is chosen by the caller (the tape): spawned
// futures are queued and polled, one at a time, in the chosen order.

type Task = futures::task::FutureObj<'static, ()>;

#[derive(Clone, Default)]
pub struct TaskQueue(Arc<std::sync::Mutex<Vec<Task>>>);

impl futures::task::Spawn for TaskQueue {
    fn spawn_obj(&self, future: Task) -> Result<(), futures::task::SpawnError> {
        self.0.lock().unwrap_or_else(|e| e.into_inner()).push(future);
        Ok(())
    }
}

/// Drives `fut` and every task spawned on `queue`. `pick(n)` chooses which of the `n` pollable
/// items (index 0 = the main future if it is pollable) is polled next.
pub fn drive_with_tasks<F: Future>(
    fut: F,
    queue: &TaskQueue,
    max_polls: u64,
    mut pick: impl FnMut(usize) -> usize,
) -> Outcome<F::Output> {
    let mut main = Box::pin(fut);
    let main_flag = Arc::new(Flag(AtomicBool::new(true)));
    let mut tasks: Vec<(std::pin::Pin<Box<Task>>, Arc<Flag>)> = Vec::new();
    let mut polls = 0;
    loop {
        // adopt newly spawned tasks
        for t in queue.0.lock().unwrap_or_else(|e| e.into_inner()).drain(..) {
            tasks.push((Box::pin(t), Arc::new(Flag(AtomicBool::new(true)))));
        }
        // pollable = woken (or never polled)
        let mut cands: Vec<usize> = Vec::new(); // 0 = main, i + 1 = task i
        if main_flag.0.load(Ordering::SeqCst) {
            cands.push(0);
        }
        for (i, (_, f)) in tasks.iter().enumerate() {
            if f.0.load(Ordering::SeqCst) {
                cands.push(i + 1);
            }
        }
        if cands.is_empty() {
            return Outcome::Stuck(polls);
        }
        polls += 1;
        if polls > max_polls {
            return Outcome::PollCap;
        }
        let c = cands[pick(cands.len()).min(cands.len() - 1)];
        if c == 0 {
            main_flag.0.store(false, Ordering::SeqCst);
            let waker = Waker::from(main_flag.clone());
            let mut cx = Context::from_waker(&waker);
            if let Poll::Ready(v) = main.as_mut().poll(&mut cx) {
                return Outcome::Ready(v, polls);
            }
        } else {
            let i = c - 1;
            tasks[i].1 .0.store(false, Ordering::SeqCst);
            let waker = Waker::from(tasks[i].1.clone());
            let mut cx = Context::from_waker(&waker);
            if let Poll::Ready(()) = tasks[i].0.as_mut().poll(&mut cx) {
                tasks.remove(i);
            }
        }
    }
}
