//! The scheduler models every instrumented lock site as "the thread waits here until the probed
//! lock is free". That is only true while the acquisition that follows the hook is a *blocking*
//! acquisition of the probed lock. This module reads gluon's sources once per process and
//! classifies every `verif::sched_point(site, .., probe)` site:
//!   Blocking     – the probed lock `X` is acquired with `X.lock()/read()/write()` right after
//!   NonBlocking  – it is acquired with `X.try_lock()/try_read()/try_write()` (the code goes on
//!                  when the lock is busy): the scheduler then lets the thread through even if the
//!                  probe fails, so that the busy branch is explored
//!   Unknown      – neither can be found: the model of that site is invalid (harness error)
use std::{collections::BTreeMap, fs, path::PathBuf};

#[derive(Clone, Copy, PartialEq, Eq, Debug)]
pub enum Kind {
    Blocking,
    NonBlocking,
    Unknown,
}

/// Root of the gluon checkout this crate was built against (the `gluon` path dependency)
pub fn gluon_root() -> PathBuf {
    let manifest = concat!(env!("CARGO_MANIFEST_DIR"), "/Cargo.toml");
    let text = fs::read_to_string(manifest).unwrap_or_default();
    for line in text.lines() {
        let l = line.trim();
        if l.starts_with("gluon ") || l.starts_with("gluon=") {
            if let Some(i) = l.find("path") {
                let rest = &l[i..];
                if let (Some(a), Some(b)) = (rest.find('"'), rest[rest.find('"').unwrap_or(0) + 1..].find('"')) {
                    return PathBuf::from(&rest[a + 1..a + 1 + b]);
                }
            }
        }
    }
    PathBuf::from("/repo")
}

pub fn classify() -> BTreeMap<String, Kind> {
    let root = gluon_root();
    let mut out: BTreeMap<String, Kind> = BTreeMap::new();
    for rel in ["vm/src/thread.rs", "vm/src/vm.rs", "src/query.rs", "src/import.rs", "vm/src/gc.rs", "vm/src/channel.rs", "vm/src/lazy.rs", "vm/src/reference.rs"] {
        let Ok(text) = fs::read_to_string(root.join(rel)) else { continue };
        let lines: Vec<&str> = text.lines().collect();
        let mut i = 0;
        while i < lines.len() {
            if !lines[i].contains("verif::sched_point(") {
                i += 1;
                continue;
            }
            // the call spans up to 6 lines: collect it up to the line that closes it
            let mut call = String::new();
            let mut end = i;
            for j in i..(i + 8).min(lines.len()) {
                call.push_str(lines[j]);
                call.push('\n');
                end = j;
                let t = lines[j].trim();
                if t == ");" || t == "});" {
                    break;
                }
            }
            let site = call.split('"').nth(1).unwrap_or("?").to_string();
            // the probed lock expression: `<X>.try_lock()` / `.try_read()` / `.try_write()`
            let probed = ["try_lock()", "try_read()", "try_write()"].iter().find_map(|m| {
                call.find(&format!(".{}", m)).map(|p| {
                    let head = &call[..p];
                    let start = head.rfind(|c: char| !(c.is_alphanumeric() || c == '_' || c == '.' || c == '(' || c == ')')).map_or(0, |s| s + 1);
                    (head[start..].trim_start_matches('(').to_string(), *m)
                })
            });
            let kind = match probed {
                None => Kind::Unknown,
                Some((x, m)) => {
                    let blocking = format!("{}.{}", x, m.trim_start_matches("try_"));
                    let trying = format!("{}.{}", x, m);
                    let after: String = lines[(end + 1).min(lines.len())..(end + 14).min(lines.len())].join("\n");
                    // (stop at the next instrumented site)
                    let after = after.split("verif::sched_point(").next().unwrap_or("").to_string();
                    if after.contains(&blocking) {
                        Kind::Blocking
                    } else if after.contains(&trying) {
                        Kind::NonBlocking
                    } else {
                        Kind::Unknown
                    }
                }
            };
            // one site name may be used at several places: the weakest classification wins
            let e = out.entry(site).or_insert(kind);
            if kind == Kind::Unknown || (*e == Kind::Blocking && kind == Kind::NonBlocking) {
                *e = kind;
            }
            i = end + 1;
        }
    }
    out
}
