//! Engine interface and the single-run driver
use std::{
    panic::{self, AssertUnwindSafe},
    sync::Mutex,
};

use serde_json::{json, Value};

use crate::{
    prng::{self, Rng},
    run::{self, Current, RunStats, Violation, CURRENT},
    tape::Tape,
};

pub struct EngineInfo {
    pub rule: &'static str,
    pub real: Vec<&'static str>,
    pub stubbed: Vec<&'static str>,
    pub not_exercised: Vec<&'static str>,
    pub fault_kinds: Vec<&'static str>,
    pub assumptions: Vec<&'static str>,
    /// JSON pointers (into the workload) of arrays the minimiser may shrink
    pub shrink: Vec<&'static str>,
    /// (runs, wall clock cap in seconds)
    pub quick: (u64, u64),
    pub thorough: (u64, u64),
}

pub trait Engine: Sync {
    fn id(&self) -> &'static str;
    fn info(&self) -> EngineInfo;
    fn generate(&self, rng: &mut Rng, tier: &str) -> Value;
    fn run(&self, workload: &Value) -> Result<(), Violation>;
}

pub struct Outcome {
    pub violation: Option<Violation>,
    pub stats: RunStats,
    pub tape: Value,
    pub decisions: u64,
    pub fired: std::collections::BTreeMap<String, u64>,
    pub workload: Value,
}

static LAST_PANIC: Mutex<Option<String>> = Mutex::new(None);

pub fn install_panic_hook() {
    panic::set_hook(Box::new(|info| {
        let msg = if let Some(s) = info.payload().downcast_ref::<&str>() {
            s.to_string()
        } else if let Some(s) = info.payload().downcast_ref::<String>() {
            s.clone()
        } else {
            "<non-string panic>".to_string()
        };
        let loc = info
            .location()
            .map(|l| format!("{}:{}", l.file(), l.line()))
            .unwrap_or_default();
        let text = format!("{} at {}", msg, loc);
        if std::env::var("SIM_DEBUG").is_ok() {
            eprintln!("PANIC: {}", text);
        }
        *LAST_PANIC.lock().unwrap_or_else(|e| e.into_inner()) = Some(text);
    }));
}

pub fn take_panic() -> Option<String> {
    LAST_PANIC.lock().unwrap_or_else(|e| e.into_inner()).take()
}

pub fn workload_seed(seed: u64) -> u64 {
    prng::mix(&[seed, 1])
}

pub fn tape_seed(seed: u64) -> u64 {
    prng::mix(&[seed, 2])
}

/// Executes one run. `workload`/`tape` override what would be derived from the seed (replay).
pub fn execute(
    engine: &dyn Engine,
    seed: u64,
    tier: &str,
    workload: Option<Value>,
    tape: Option<Value>,
    out: Option<std::fs::File>,
) -> (Outcome, Option<std::fs::File>) {
    let workload = workload.unwrap_or_else(|| {
        let mut rng = Rng::new(workload_seed(seed));
        engine.generate(&mut rng, tier)
    });
    let tape_json = tape.unwrap_or_else(|| json!({ "seed": tape_seed(seed) }));
    let tape = Tape::from_json(&tape_json, tape_seed(seed));
    *CURRENT.lock().unwrap_or_else(|e| e.into_inner()) = Some(Current {
        property: engine.id().to_string(),
        seed,
        tier: tier.to_string(),
        workload: workload.clone(),
        tape_json,
        out,
    });
    run::begin(tape);
    let _ = take_panic();
    let result = panic::catch_unwind(AssertUnwindSafe(|| engine.run(&workload)));
    let sim = run::end().expect("run state");
    let violation = match result {
        Ok(Ok(())) => None,
        Ok(Err(v)) => Some(v),
        Err(_) => Some(Violation::new(
            "panic",
            take_panic().unwrap_or_else(|| "unknown panic".into()),
        )),
    };
    // every VM of the run has been dropped: release the quarantined blocks
    if violation.is_none() {
        unsafe { gluon_vm::verif::quarantine_flush() };
    }
    let mut stats = sim.stats;
    stats.shape_hash = prng::hash_str(&workload.to_string());
    stats.trace_hash = prng::mix(&[stats.shape_hash, sim.tape.hash, stats.trace_hash]);
    *stats.counters.entry("gc_checks".into()).or_insert(0) += sim.gc_checks;
    let out = CURRENT
        .lock()
        .unwrap_or_else(|e| e.into_inner())
        .take()
        .and_then(|c| c.out);
    (
        Outcome {
            violation,
            stats,
            tape: sim.tape.recorded_json(),
            decisions: sim.tape.decisions,
            fired: sim.tape.fired.clone(),
            workload,
        },
        out,
    )
}
