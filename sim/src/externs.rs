//! Harness extern module `sim` (registered with `add_extern_module`)
use gluon::{
    import::add_extern_module,
    primitive, record,
    vm::{self, api::RuntimeResult, ExternModule},
    Thread,
};

use crate::run;

type VmInt = i64;

fn obs(tag: VmInt, value: VmInt) -> VmInt {
    run::try_with(|s| s.obs.push(format!("{} {}", tag, value)));
    value
}

fn tick(name: &str) -> VmInt {
    run::try_with(|s| {
        let n = s.ticks.entry(name.to_string()).or_insert(0);
        *n += 1;
        *n as VmInt
    })
    .unwrap_or(0)
}

fn fail(msg: &str) -> RuntimeResult<VmInt, String> {
    RuntimeResult::Panic(msg.to_string())
}

fn load(thread: &Thread) -> vm::Result<ExternModule> {
    ExternModule::new(
        thread,
        record! {
            obs => primitive!(2, obs),
            tick => primitive!(1, tick),
            fail => primitive!(1, fail)
        },
    )
}

pub fn install(thread: &Thread) {
    add_extern_module(thread, "sim", load);
}
