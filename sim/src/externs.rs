//! Harness extern module `sim` (registered with `add_extern_module`)
use gluon::{
    import::add_extern_module,
    primitive, record,
    vm::{self, api::RuntimeResult, ExternModule},
    Thread,
};

use crate::run;

type VmInt = i64;

fn obs(tag: VmInt, value: VmInt) -> VmInt {
    run::try_with(|s| s.obs.push(format!("{} {}", tag, value)));
    value
}

fn tick(name: &str) -> VmInt {
    run::try_with(|s| {
        let n = s.ticks.entry(name.to_string()).or_insert(0);
        *n += 1;
        *n as VmInt
    })
    .unwrap_or(0)
}

fn fail(msg: &str) -> RuntimeResult<VmInt, String> {
    RuntimeResult::Panic(msg.to_string())
}

/// Host events the simulator fires: `sim.wait k` is pending until event `k` was fired
static EVENTS: std::sync::Mutex<std::collections::BTreeMap<VmInt, (bool, Vec<std::task::Waker>)>> =
    std::sync::Mutex::new(std::collections::BTreeMap::new());

pub fn reset_events() {
    EVENTS.lock().unwrap_or_else(|e| e.into_inner()).clear();
}

pub fn fire(k: VmInt) {
    let wakers = {
        let mut ev = EVENTS.lock().unwrap_or_else(|e| e.into_inner());
        let e = ev.entry(k).or_insert((false, Vec::new()));
        e.0 = true;
        std::mem::take(&mut e.1)
    };
    for w in wakers {
        w.wake();
    }
}

struct WaitFuture(VmInt);

impl std::future::Future for WaitFuture {
    type Output = VmInt;
    fn poll(self: std::pin::Pin<&mut Self>, cx: &mut std::task::Context<'_>) -> std::task::Poll<VmInt> {
        let mut ev = EVENTS.lock().unwrap_or_else(|e| e.into_inner());
        let e = ev.entry(self.0).or_insert((false, Vec::new()));
        if e.0 {
            std::task::Poll::Ready(self.0)
        } else {
            e.1.push(cx.waker().clone());
            std::task::Poll::Pending
        }
    }
}

async fn wait(k: VmInt) -> VmInt {
    WaitFuture(k).await
}

/// Host side of `sim.wait`: ready once event `k` was fired
pub fn wait_event(k: VmInt) -> impl std::future::Future<Output = VmInt> {
    WaitFuture(k)
}

/// `sim.fire k`: fires event `k` from a gluon program (returns `k`)
fn fire_from_program(k: VmInt) -> VmInt {
    fire(k);
    k
}

fn load(thread: &Thread) -> vm::Result<ExternModule> {
    ExternModule::new(
        thread,
        record! {
            obs => primitive!(2, obs),
            tick => primitive!(1, tick),
            fail => primitive!(1, fail),
            wait => primitive!(1, "sim.wait", async fn wait),
            fire => primitive!(1, "sim.fire", fire_from_program)
        },
    )
}

pub fn install(thread: &Thread) {
    add_extern_module(thread, "sim", load);
}
