//! Type-directed generator of terminating gluon programs.
//!
//! Programs are emitted without relying on the implicit prelude (primitive operators `#Int+`,
//! `std.array.prim`, `std.string.prim`), every inner expression on one line with explicit `in`,
//! top level bindings at column 0.
use crate::prng::Rng;

#[derive(Clone, PartialEq, Debug)]
pub enum Ty {
    Int,
    Float,
    Str,
    Arr(Box<Ty>),
    Rec(Vec<(String, Ty)>),
    Tree,
    Fun(Vec<Ty>, Box<Ty>),
}

impl Ty {
    pub fn show(&self) -> String {
        match self {
            Ty::Int => "Int".into(),
            Ty::Float => "Float".into(),
            Ty::Str => "String".into(),
            Ty::Arr(t) => format!("(Array {})", t.show()),
            Ty::Rec(fs) => {
                let fs: Vec<String> = fs
                    .iter()
                    .map(|(n, t)| format!("{} : {}", n, t.show()))
                    .collect();
                format!("{{ {} }}", fs.join(", "))
            }
            Ty::Tree => "Tree".into(),
            Ty::Fun(args, ret) => {
                let mut s = String::from("(");
                for a in args {
                    s.push_str(&a.show());
                    s.push_str(" -> ");
                }
                s.push_str(&ret.show());
                s.push(')');
                s
            }
        }
    }

    fn is_data(&self) -> bool {
        !matches!(self, Ty::Fun(..))
    }
}

/// Module `simtypes` which the harness loads into every VM before generated programs run (types
/// are nominal per module, so that all programs share one `Tree`)
pub const TYPES_MODULE: &str = "type Tree = | Leaf Int | Node Tree String Tree | Tip\n{ Tree }\n";

pub const PREAMBLE: &str = "let array = import! std.array.prim\nlet string = import! std.string.prim\nlet { Tree } = import! simtypes\n";

pub struct Gen<'r> {
    pub rng: &'r mut Rng,
    env: Vec<(String, Ty)>,
    next_var: usize,
    fuel: i32,
    loop_depth: u32,
    pub hoisted: Vec<String>,
    /// multi-armed matches are hoisted to top level functions; switch off for expressions that
    /// must be self-contained
    pub allow_match: bool,
    /// upper bound for loop counters
    pub max_loop: i64,
}

impl<'r> Gen<'r> {
    pub fn new(rng: &'r mut Rng, fuel: i32) -> Gen<'r> {
        Gen {
            rng,
            env: Vec::new(),
            next_var: 0,
            fuel,
            loop_depth: 0,
            hoisted: Vec::new(),
            allow_match: true,
            max_loop: 24,
        }
    }

    pub fn with_env(mut self, env: Vec<(String, Ty)>) -> Self {
        self.env = env;
        self
    }

    fn fresh(&mut self, prefix: &str) -> String {
        self.next_var += 1;
        format!("{}{}", prefix, self.next_var)
    }

    /// A random first-order ("data") type
    pub fn data_ty(&mut self, depth: u32) -> Ty {
        let n = if depth == 0 { 3 } else { 7 };
        match self.rng.below(n) {
            0 => Ty::Int,
            1 => Ty::Str,
            2 => Ty::Float,
            3 => Ty::Tree,
            4 => Ty::Arr(Box::new(self.data_ty(depth - 1))),
            5 => Ty::Arr(Box::new(Ty::Int)),
            _ => {
                let wide = self.rng.chance(1, 6);
                let n = 1 + self.rng.below(if wide { 7 } else { 3 });
                let fields = (0..n)
                    .map(|i| (format!("f{}", i), self.data_ty(depth - 1)))
                    .collect();
                Ty::Rec(fields)
            }
        }
    }

    pub fn any_ty(&mut self, depth: u32) -> Ty {
        if depth > 0 && self.rng.chance(1, 4) {
            let n = 1 + self.rng.below(3);
            let args = (0..n).map(|_| self.data_ty(depth - 1)).collect();
            let ret = if self.rng.chance(1, 5) {
                // function returning a function (over-application)
                Ty::Fun(vec![self.data_ty(0)], Box::new(self.data_ty(depth - 1)))
            } else {
                self.data_ty(depth - 1)
            };
            Ty::Fun(args, Box::new(ret))
        } else {
            self.data_ty(depth)
        }
    }

    fn vars_of(&self, ty: &Ty) -> Vec<String> {
        self.env
            .iter()
            .filter(|(_, t)| t == ty)
            .map(|(n, _)| n.clone())
            .collect()
    }

    fn literal(&mut self, ty: &Ty) -> String {
        match ty {
            Ty::Int => format!("{}", self.rng.range(0, 40)),
            Ty::Float => format!("{}.{}", self.rng.range(0, 9), *self.rng.pick(&["0", "5", "25", "125"])),
            Ty::Str => {
                let words = ["", "a", "bc", "gluon", "λx", "hello world", "0123456789abcdef0123456789"];
                format!("{:?}", *self.rng.pick(&words))
            }
            Ty::Arr(t) => {
                let t = (**t).clone();
                format!("[{}]", self.literal(&t))
            }
            Ty::Rec(fs) => {
                let fs = fs.clone();
                let parts: Vec<String> = fs
                    .iter()
                    .map(|(n, t)| format!("{} = {}", n, self.literal(t)))
                    .collect();
                format!("{{ {} }}", parts.join(", "))
            }
            Ty::Tree => {
                if self.rng.chance(1, 2) {
                    "Tip".to_string()
                } else {
                    format!("(Leaf {})", self.rng.range(0, 9))
                }
            }
            Ty::Fun(args, ret) => {
                let names: Vec<String> = args.iter().map(|_| self.fresh("p")).collect();
                format!("(\\{} -> {})", names.join(" "), self.literal(ret))
            }
        }
    }

    /// Generates an expression of type `ty`
    pub fn expr(&mut self, ty: &Ty, depth: u32) -> String {
        self.fuel -= 1;
        if depth == 0 || self.fuel <= 0 {
            let vars = self.vars_of(ty);
            if !vars.is_empty() && self.rng.chance(3, 4) {
                return self.rng.pick(&vars).clone();
            }
            return self.literal(ty);
        }
        // constructs available for every type
        let roll = self.rng.below(100);
        if roll < 10 {
            let vars = self.vars_of(ty);
            if !vars.is_empty() {
                return self.rng.pick(&vars).clone();
            }
        } else if roll < 22 {
            return self.let_in(ty, depth);
        } else if roll < 30 {
            let a = self.expr(&Ty::Int, depth - 1);
            let b = self.expr(&Ty::Int, depth - 1);
            let t = self.expr(ty, depth - 1);
            let e = self.expr(ty, depth - 1);
            return format!("(if {} #Int< {} then {} else {})", a, b, t, e);
        } else if roll < 38 {
            if let Some(e) = self.call_fn(ty, depth) {
                return e;
            }
        } else if roll < 45 && self.allow_match {
            return self.match_tree(ty, depth);
        } else if roll < 50 {
            if let Some(e) = self.field_access(ty, depth) {
                return e;
            }
        } else if roll < 58 && ty.is_data() {
            return self.tail_loop(ty, depth);
        } else if roll < 62 && ty.is_data() {
            return self.nontail_rec(ty, depth);
        }
        self.construct(ty, depth)
    }

    fn let_in(&mut self, ty: &Ty, depth: u32) -> String {
        let bty = self.any_ty(2);
        let name = self.fresh("v");
        let bound = self.expr(&bty, depth - 1);
        self.env.push((name.clone(), bty));
        let body = self.expr(ty, depth - 1);
        self.env.pop();
        format!("(let {} = {} in {})", name, bound, body)
    }

    fn call_fn(&mut self, ty: &Ty, depth: u32) -> Option<String> {
        // f : a1 -> .. -> an -> ty, possibly returning a function that is applied further
        let mut cands: Vec<(String, Vec<Ty>)> = Vec::new();
        for (n, t) in &self.env {
            if let Ty::Fun(args, ret) = t {
                if **ret == *ty {
                    cands.push((n.clone(), args.clone()));
                } else if let Ty::Fun(args2, ret2) = &**ret {
                    if **ret2 == *ty {
                        let mut all = args.clone();
                        all.extend(args2.iter().cloned());
                        cands.push((n.clone(), all));
                    }
                }
                // partial application: want a function type and have one with more arguments
                if let Ty::Fun(want_args, want_ret) = ty {
                    if args.len() > want_args.len()
                        && args[args.len() - want_args.len()..] == want_args[..]
                        && ret == want_ret
                    {
                        cands.push((n.clone(), args[..args.len() - want_args.len()].to_vec()));
                    }
                }
            }
        }
        if cands.is_empty() {
            return None;
        }
        let (f, args) = self.rng.pick(&cands).clone();
        let args: Vec<String> = args.iter().map(|a| self.expr(a, depth - 1)).collect();
        Some(format!("({} {})", f, args.join(" ")))
    }

    fn match_tree(&mut self, ty: &Ty, depth: u32) -> String {
        let scrut = self.expr(&Ty::Tree, depth - 1);
        let i = self.fresh("i");
        let l = self.fresh("l");
        let s = self.fresh("s");
        let r = self.fresh("r");
        self.env.push((i.clone(), Ty::Int));
        let a1 = self.expr(ty, depth - 1);
        self.env.pop();
        self.env.push((l.clone(), Ty::Tree));
        self.env.push((s.clone(), Ty::Str));
        self.env.push((r.clone(), Ty::Tree));
        let a2 = self.expr(ty, depth - 1);
        self.env.pop();
        self.env.pop();
        self.env.pop();
        let a3 = self.expr(ty, depth - 1);
        // Multi-armed matches need their own lines: hoist them into a top level function which
        // receives every variable in scope
        let name = self.fresh("m");
        let mut params: Vec<String> = self.env.iter().map(|(n, _)| n.clone()).collect();
        let mut args = params.clone();
        if params.is_empty() {
            params.push("_u".to_string());
            args.push("()".to_string());
        }
        self.hoisted.push(format!(
            "let {} {} =\n    match {} with\n    | Leaf {} -> {}\n    | Node {} {} {} -> {}\n    | Tip -> {}\n",
            name,
            params.join(" "),
            scrut,
            i,
            a1,
            l,
            s,
            r,
            a2,
            a3
        ));
        format!("({} {})", name, args.join(" "))
    }

    fn field_access(&mut self, ty: &Ty, _depth: u32) -> Option<String> {
        let mut cands = Vec::new();
        for (n, t) in &self.env {
            if let Ty::Rec(fs) = t {
                for (f, ft) in fs {
                    if ft == ty {
                        cands.push(format!("{}.{}", n, f));
                    }
                }
            }
        }
        if cands.is_empty() {
            None
        } else {
            Some(self.rng.pick(&cands).clone())
        }
    }

    /// `rec let f n acc = if n < 1 then acc else f (n - 1) STEP in f K INIT`
    fn tail_loop(&mut self, ty: &Ty, depth: u32) -> String {
        let f = self.fresh("loop");
        let n = self.fresh("n");
        let acc = self.fresh("acc");
        let init = self.expr(ty, depth - 1);
        // the accumulator itself is not in scope of the generated sub-expressions: growth per
        // iteration stays additive
        self.env.push((n.clone(), Ty::Int));
        self.loop_depth += 1;
        let step = self.grow(ty, &acc, &n, depth - 1);
        self.loop_depth -= 1;
        self.env.pop();
        let k = self.rng.range(1, (self.max_loop >> (2 * self.loop_depth)).max(2));
        format!(
            "(rec let {f} {n} {acc} = if {n} #Int< 1 then {acc} else {f} ({n} #Int- 1) {step} in {f} {k} {init})",
            f = f,
            n = n,
            acc = acc,
            step = step,
            k = k,
            init = init
        )
    }

    /// `rec let g n = if n < 1 then BASE else COMBINE (g (n - 1))`
    fn nontail_rec(&mut self, ty: &Ty, depth: u32) -> String {
        let g = self.fresh("rec");
        let n = self.fresh("n");
        let prev = self.fresh("prev");
        let base = self.expr(ty, depth - 1);
        self.env.push((n.clone(), Ty::Int));
        self.loop_depth += 1;
        let comb = self.grow(ty, &prev, &n, depth - 1);
        self.loop_depth -= 1;
        self.env.pop();
        let k = self.rng.range(1, (self.max_loop.min(12) >> (2 * self.loop_depth)).max(2));
        format!(
            "(rec let {g} {n} = if {n} #Int< 1 then {base} else (let {prev} = {g} ({n} #Int- 1) in {comb}) in {g} {k})",
            g = g,
            n = n,
            base = base,
            prev = prev,
            comb = comb,
            k = k
        )
    }

    /// An expression of type `ty` that uses `acc : ty` (and usually allocates)
    fn grow(&mut self, ty: &Ty, acc: &str, n: &str, depth: u32) -> String {
        match ty {
            Ty::Int => format!("({} #Int+ {})", acc, self.expr(&Ty::Int, depth)),
            Ty::Float => format!("({} #Float+ {})", acc, self.expr(&Ty::Float, depth)),
            Ty::Str => {
                if self.rng.chance(1, 2) {
                    format!("(string.append {} {})", acc, self.expr(&Ty::Str, depth))
                } else {
                    format!("(if (string.len {}) #Int< 40 then string.append {} {} else {})", acc, self.expr(&Ty::Str, depth), acc, self.expr(&Ty::Str, depth))
                }
            }
            Ty::Arr(t) => {
                let e = self.expr(t, depth);
                format!("(array.append {} [{}])", acc, e)
            }
            Ty::Tree => match self.rng.below(3) {
                0 => format!("(Node {} {} (Leaf {}))", acc, self.expr(&Ty::Str, depth), n),
                1 => format!("(Node (Leaf {}) {} {})", n, self.expr(&Ty::Str, depth), acc),
                _ => format!("(Node {} \"x\" Tip)", acc),
            },
            Ty::Rec(fs) => {
                let fs = fs.clone();
                if fs.is_empty() {
                    return acc.to_string();
                }
                let k = self.rng.below(fs.len());
                let parts: Vec<String> = fs
                    .iter()
                    .enumerate()
                    .map(|(i, (name, t))| {
                        if i == k {
                            let field = format!("{}.{}", acc, name);
                            let e = match t {
                                Ty::Fun(..) => field,
                                _ => self.grow_field(t, &field, n, depth),
                            };
                            format!("{} = {}", name, e)
                        } else {
                            format!("{} = {}.{}", name, acc, name)
                        }
                    })
                    .collect();
                format!("{{ {} }}", parts.join(", "))
            }
            Ty::Fun(..) => acc.to_string(),
        }
    }

    fn grow_field(&mut self, ty: &Ty, field: &str, n: &str, depth: u32) -> String {
        // parenthesised field access as the accumulator
        let acc = format!("({})", field);
        if depth == 0 {
            return acc;
        }
        self.grow(ty, &acc, n, depth - 1)
    }

    fn construct(&mut self, ty: &Ty, depth: u32) -> String {
        match ty {
            Ty::Int => match self.rng.below(6) {
                0 => self.literal(ty),
                1 => format!("({} #Int+ {})", self.expr(&Ty::Int, depth - 1), self.expr(&Ty::Int, depth - 1)),
                2 => format!("({} #Int- {})", self.expr(&Ty::Int, depth - 1), self.expr(&Ty::Int, depth - 1)),
                3 => {
                    let t = self.data_ty(1);
                    format!("(array.len {})", self.expr(&Ty::Arr(Box::new(t)), depth - 1))
                }
                4 => format!("(string.len {})", self.expr(&Ty::Str, depth - 1)),
                _ => {
                    // indexing: guarded so that it is in range most of the time
                    let arr = self.fresh("arr");
                    let a = self.expr(&Ty::Arr(Box::new(Ty::Int)), depth - 1);
                    let guard = if self.rng.chance(9, 10) { "0" } else { "-1" };
                    format!(
                        "(let {arr} = {a} in if {g} #Int< (array.len {arr}) then array.index {arr} ((array.len {arr}) #Int- 1) else 7)",
                        arr = arr, a = a, g = guard
                    )
                }
            },
            Ty::Float => match self.rng.below(3) {
                0 => self.literal(ty),
                1 => format!("({} #Float+ {})", self.expr(&Ty::Float, depth - 1), self.expr(&Ty::Float, depth - 1)),
                _ => format!("({} #Float* {})", self.expr(&Ty::Float, depth - 1), self.literal(&Ty::Float)),
            },
            Ty::Str => match self.rng.below(3) {
                0 => self.literal(ty),
                _ => format!("(string.append {} {})", self.expr(&Ty::Str, depth - 1), self.expr(&Ty::Str, depth - 1)),
            },
            Ty::Arr(t) => match self.rng.below(3) {
                0 => {
                    let n = 1 + self.rng.below(4);
                    let es: Vec<String> = (0..n).map(|_| self.expr(t, depth - 1)).collect();
                    format!("[{}]", es.join(", "))
                }
                1 => format!("(array.append {} {})", self.expr(ty, depth - 1), self.expr(ty, depth - 1)),
                _ => {
                    let a = self.fresh("arr");
                    let e = self.expr(ty, depth - 1);
                    format!("(let {a} = {e} in array.slice {a} 0 (array.len {a}))", a = a, e = e)
                }
            },
            Ty::Rec(fs) => {
                let fs = fs.clone();
                let parts: Vec<String> = fs
                    .iter()
                    .map(|(n, t)| format!("{} = {}", n, self.expr(t, depth - 1)))
                    .collect();
                format!("{{ {} }}", parts.join(", "))
            }
            Ty::Tree => match self.rng.below(4) {
                0 => "Tip".to_string(),
                1 => format!("(Leaf {})", self.expr(&Ty::Int, depth - 1)),
                _ => format!(
                    "(Node {} {} {})",
                    self.expr(&Ty::Tree, depth - 1),
                    self.expr(&Ty::Str, depth - 1),
                    self.expr(&Ty::Tree, depth - 1)
                ),
            },
            Ty::Fun(args, ret) => {
                let names: Vec<String> = args.iter().map(|_| self.fresh("a")).collect();
                for (n, t) in names.iter().zip(args.iter()) {
                    self.env.push((n.clone(), t.clone()));
                }
                let body = self.expr(ret, depth - 1);
                for _ in names.iter() {
                    self.env.pop();
                }
                format!("(\\{} -> {})", names.join(" "), body)
            }
        }
    }
}

/// A whole program whose value has type `ty`
pub fn program(rng: &mut Rng, ty: &Ty, fuel: i32, depth: u32) -> String {
    let mut g = Gen::new(rng, fuel);
    let body = g.expr(ty, depth);
    format!("{}{}{}\n", PREAMBLE, g.hoisted.concat(), body)
}

/// An argument literal (as a gluon expression) of type `ty`
pub fn argument(rng: &mut Rng, ty: &Ty) -> String {
    let mut g = Gen::new(rng, 6);
    g.allow_match = false;
    g.expr(ty, 2)
}
