//! The decision tape: every schedule/fault decision of a run goes through `Tape::decide`.
//!
//! * `Seeded`: decisions are drawn from the PRNG stream derived from the run seed and recorded.
//! * `Explicit`: decisions are read back per kind from the replay file; when a list is exhausted
//!   the default alternative (0 = "no fault / no collect / stay on the current thread") is taken.
use std::collections::BTreeMap;

use serde_json::{json, Value};

use crate::prng::Rng;

pub enum Mode {
    Seeded(Rng),
    Explicit {
        lists: BTreeMap<String, Vec<u32>>,
        pos: BTreeMap<String, usize>,
    },
}

pub struct Tape {
    mode: Mode,
    /// kind -> recorded choices
    pub recorded: BTreeMap<String, Vec<u32>>,
    /// total number of decisions taken
    pub decisions: u64,
    /// rolling hash over (kind, n, choice)
    pub hash: u64,
    /// number of non-default decisions per kind
    pub fired: BTreeMap<String, u64>,
}

impl Tape {
    pub fn seeded(seed: u64) -> Tape {
        Tape::with_mode(Mode::Seeded(Rng::new(seed)))
    }

    pub fn explicit(lists: BTreeMap<String, Vec<u32>>) -> Tape {
        Tape::with_mode(Mode::Explicit {
            lists,
            pos: BTreeMap::new(),
        })
    }

    fn with_mode(mode: Mode) -> Tape {
        Tape {
            mode,
            recorded: BTreeMap::new(),
            decisions: 0,
            hash: 0,
            fired: BTreeMap::new(),
        }
    }

    pub fn from_json(v: &Value, seed: u64) -> Tape {
        match v.get("explicit") {
            Some(Value::Object(m)) => {
                let mut lists = BTreeMap::new();
                for (k, xs) in m {
                    let xs = xs
                        .as_array()
                        .map(|xs| xs.iter().map(|x| x.as_u64().unwrap_or(0) as u32).collect())
                        .unwrap_or_default();
                    lists.insert(k.clone(), xs);
                }
                Tape::explicit(lists)
            }
            _ => {
                let s = v.get("seed").and_then(|s| s.as_u64()).unwrap_or(seed);
                Tape::seeded(s)
            }
        }
    }

    pub fn recorded_json(&self) -> Value {
        json!({ "explicit": self.recorded })
    }

    /// Chooses one of `n` alternatives; alternative 0 is the default. In seeded mode alternative
    /// `i > 0` is chosen with total probability `num/den` (uniform among the non-default ones).
    pub fn decide(&mut self, kind: &str, n: u32, num: u32, den: u32) -> u32 {
        debug_assert!(n >= 1);
        let choice = if n == 1 {
            0
        } else {
            match &mut self.mode {
                Mode::Seeded(rng) => {
                    if rng.chance(num, den) {
                        1 + rng.below(n as usize - 1) as u32
                    } else {
                        0
                    }
                }
                Mode::Explicit { lists, pos } => {
                    let p = pos.entry(kind.to_string()).or_insert(0);
                    let c = lists
                        .get(kind)
                        .and_then(|l| l.get(*p))
                        .copied()
                        .unwrap_or(0);
                    *p += 1;
                    if c < n {
                        c
                    } else {
                        0
                    }
                }
            }
        };
        self.recorded
            .entry(kind.to_string())
            .or_default()
            .push(choice);
        self.decisions += 1;
        self.hash = crate::prng::mix(&[
            self.hash,
            crate::prng::hash_str(kind),
            n as u64,
            choice as u64,
        ]);
        if choice != 0 {
            *self.fired.entry(kind.to_string()).or_insert(0) += 1;
        }
        choice
    }

    /// Uniform choice among `n` alternatives
    pub fn choose(&mut self, kind: &str, n: u32) -> u32 {
        if n <= 1 {
            return self.decide(kind, 1, 0, 1);
        }
        self.decide(kind, n, n - 1, n)
    }

    pub fn flip(&mut self, kind: &str, num: u32, den: u32) -> bool {
        self.decide(kind, 2, num, den) == 1
    }
}
