//! Canonical, address-free rendering of gluon values through the public `ValueRef` API.
use gluon_vm::{api::ValueRef, Variants};

const MAX_DEPTH: usize = 40;
const MAX_LEN: usize = 20_000;

pub fn render(v: Variants<'_>) -> String {
    let mut out = String::new();
    go(v.as_ref(), 0, &mut out);
    out
}

fn go(v: ValueRef<'_>, depth: usize, out: &mut String) {
    if depth > MAX_DEPTH || out.len() > MAX_LEN {
        out.push_str("...");
        return;
    }
    match v {
        ValueRef::Byte(b) => out.push_str(&format!("{}b", b)),
        ValueRef::Int(i) => out.push_str(&format!("{}", i)),
        ValueRef::Float(f) => out.push_str(&format!("{:?}f", f)),
        ValueRef::String(s) => out.push_str(&format!("{:?}", s)),
        ValueRef::Data(d) => {
            out.push_str(&format!("<{}", d.tag()));
            for i in 0..d.len() {
                out.push(' ');
                match d.get_variant(i) {
                    Some(f) => go(f.as_ref(), depth + 1, out),
                    None => out.push('?'),
                }
            }
            out.push('>');
        }
        ValueRef::Array(a) => {
            out.push('[');
            for (i, e) in a.iter().enumerate() {
                if i != 0 {
                    out.push(',');
                }
                go(e.as_ref(), depth + 1, out);
            }
            out.push(']');
        }
        ValueRef::Userdata(_) => out.push_str("<userdata>"),
        ValueRef::Thread(_) => out.push_str("<thread>"),
        ValueRef::Closure(c) => {
            out.push_str("<fn");
            for u in c.upvars() {
                out.push(' ');
                go(u.as_ref(), depth + 1, out);
            }
            out.push('>');
        }
        ValueRef::Internal => out.push_str("<internal>"),
    }
}
