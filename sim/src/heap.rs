//! Heap walking with the VM's own `Trace` implementations (guarded hook `Gc::verif_new_visitor`)
use gluon::RootedThread;
use gluon_vm::gc::{Gc, Trace, VerifVisitor};

pub fn walk(root: &RootedThread) -> Box<VerifVisitor> {
    let mut gc = Gc::verif_new_visitor();
    root.trace(&mut gc);
    gc.verif_take_visitor().expect("visitor")
}

/// `a` is `b` or an ancestor of `b` in the heap tree
fn is_ancestor_or_self(v: &VerifVisitor, a: u32, mut b: u32) -> bool {
    let mut steps = 0;
    loop {
        if a == b {
            return true;
        }
        match v.heap_parents.get(&b) {
            Some(&p) if p != b && steps < 64 => {
                b = p;
                steps += 1;
            }
            _ => return false,
        }
    }
}

/// Ownership invariant: every pointer held by heap `h` (an object of `h` or a root set of the
/// thread owning `h`) targets `h` itself or one of its ancestors.
/// Returns the offending edges `(from, to, count)`.
pub fn ownership_violations(v: &VerifVisitor) -> Vec<(u32, u32, u64)> {
    let mut bad = Vec::new();
    for (&(from, to), &n) in &v.cross_edges {
        if from == 0 {
            // the host's handle on the root thread
            continue;
        }
        if !is_ancestor_or_self(v, to, from) {
            bad.push((from, to, n));
        }
    }
    bad
}

pub fn describe_heaps(v: &VerifVisitor) -> String {
    let mut s = String::new();
    for (h, p) in &v.heap_parents {
        s.push_str(&format!("{}<-{} ", h, p));
    }
    s
}
