//! Batch runner: worker processes, crash attribution, minimisation, evidence.
use std::{
    collections::{BTreeMap, BTreeSet},
    fs,
    io::Write,
    path::{Path, PathBuf},
    process::{Command, Stdio},
    time::{Duration, Instant, SystemTime, UNIX_EPOCH},
};

use serde_json::{json, Value};

use crate::{
    engine::{self, Engine},
    prng,
    run::Violation,
};

pub fn verif_dir() -> PathBuf {
    PathBuf::from(std::env::var("VERIF_DIR").unwrap_or_else(|_| "/verif".to_string()))
}

pub fn run_seed(base: u64, prop: &str, i: u64) -> u64 {
    prng::mix(&[base, prng::hash_str(prop), i]) >> 1
}

fn now_secs() -> u64 {
    SystemTime::now()
        .duration_since(UNIX_EPOCH)
        .map(|d| d.as_secs())
        .unwrap_or(0)
}

// ---------------------------------------------------------------------------------------------
// worker

pub struct WorkerArgs {
    pub prop: String,
    pub tier: String,
    pub base: u64,
    pub from: u64,
    pub to: u64,
    pub stride: u64,
    pub out: PathBuf,
    pub deadline: u64,
}

pub fn worker(engine: &dyn Engine, a: &WorkerArgs) -> i32 {
    let mut out = Some(
        fs::OpenOptions::new()
            .create(true)
            .append(true)
            .open(&a.out)
            .expect("open worker output"),
    );
    let mut i = a.from;
    while i < a.to {
        if a.deadline != 0 && now_secs() >= a.deadline {
            let f = out.as_mut().unwrap();
            let _ = writeln!(f, "DEADLINE {}", i);
            break;
        }
        let seed = run_seed(a.base, &a.prop, i);
        {
            let f = out.as_mut().unwrap();
            let _ = writeln!(f, "START {} {}", i, seed);
            let _ = f.flush();
        }
        let (o, f) = engine::execute(engine, seed, &a.tier, None, None, out.take());
        out = f;
        let f = out.as_mut().unwrap();
        match &o.violation {
            Some(v) => {
                let replay = json!({
                    "property": a.prop,
                    "seed": seed,
                    "tier": a.tier,
                    "workload": o.workload,
                    "tape": o.tape,
                    "violation": { "oracle": v.oracle, "detail": v.detail },
                    "signature": v.signature(&a.prop),
                });
                let _ = writeln!(f, "VIOL {} {}", seed, replay);
                let _ = f.flush();
                if v.oracle == "panic" {
                    // state after a panic inside gluon is not trustworthy: restart the process
                    return 97;
                }
            }
            None => {
                let mut d = json!({
                    "nontrivial": o.stats.nontrivial,
                    "shape": o.stats.shape_hash,
                    "trace": o.stats.trace_hash,
                    "counters": o.stats.counters,
                    "decisions": o.decisions,
                    "fired": o.fired,
                });
                if i < 4 * a.stride {
                    if let Some(s) = &o.stats.sample {
                        d["sample"] = s.clone();
                    }
                }
                let _ = writeln!(f, "DONE {} {} {}", i, seed, d);
            }
        }
        i += a.stride;
        // Some engines make the process grow (every run builds several VMs; whatever gluon or the
        // allocator keeps is never returned). A worker that got big hands over to a fresh process:
        // runs are independent of process boundaries (see the determinism self check).
        if i < a.to && resident_bytes() > std::env::var("VERIF_RECYCLE_AT").ok().and_then(|s| s.parse().ok()).unwrap_or(RECYCLE_AT) {
            let f = out.as_mut().unwrap();
            let _ = writeln!(f, "RECYCLE {}", i);
            let _ = f.flush();
            return 96;
        }
    }
    let _ = out.as_mut().unwrap().flush();
    0
}

const RECYCLE_AT: u64 = 1_500_000_000;

fn resident_bytes() -> u64 {
    fs::read_to_string("/proc/self/statm")
        .ok()
        .and_then(|s| s.split_whitespace().nth(1).and_then(|x| x.parse::<u64>().ok()))
        .map_or(0, |pages| pages * 4096)
}

// ---------------------------------------------------------------------------------------------
// replay (one run from a file), used by the minimiser and by `replay_cmd`

pub fn replay(engine: &dyn Engine, file: &Path, result_out: Option<&Path>) -> i32 {
    let text = fs::read_to_string(file).expect("read replay file");
    let r: Value = serde_json::from_str(&text).expect("replay file is JSON");
    let seed = r["seed"].as_u64().unwrap_or(0);
    let tier = r["tier"].as_str().unwrap_or("quick").to_string();
    let workload = if r["workload"].is_null() {
        None
    } else {
        Some(r["workload"].clone())
    };
    let tape = if r["tape"].is_null() {
        None
    } else {
        Some(r["tape"].clone())
    };
    println!("SEED {}", seed);
    let (o, _) = engine::execute(engine, seed, &tier, workload, tape, None);
    match &o.violation {
        Some(v) => {
            let sig = v.signature(engine.id());
            println!("RESULT viol {}", sig);
            println!("DETAIL {}", v.detail);
            if let Some(p) = result_out {
                let _ = fs::write(
                    p,
                    json!({ "result": "viol", "signature": sig, "tape": o.tape, "oracle": v.oracle, "detail": v.detail })
                        .to_string(),
                );
            }
            1
        }
        None => {
            println!("RESULT ok");
            if let Some(p) = result_out {
                let _ = fs::write(p, json!({ "result": "ok" }).to_string());
            }
            0
        }
    }
}

// ---------------------------------------------------------------------------------------------
// parent

pub struct BatchArgs {
    pub prop: String,
    pub tier: String,
    pub base: u64,
    pub runs: u64,
    pub secs: u64,
    pub workers: u64,
}

struct Agg {
    evaluations: u64,
    nontrivial: BTreeSet<u64>,
    shapes: BTreeSet<u64>,
    traces: BTreeSet<u64>,
    counters: BTreeMap<String, u64>,
    fired: BTreeMap<String, u64>,
    decisions: u64,
    samples: Vec<Value>,
    violations: Vec<Value>,
    first_seed: Option<u64>,
    last_seed: Option<u64>,
    deadline_hit: bool,
}

fn exe() -> PathBuf {
    std::env::current_exe().expect("current exe")
}

fn scratch_dir(prop: &str) -> PathBuf {
    let d = verif_dir()
        .join("sim")
        .join("target")
        .join("scratch")
        .join(format!("{}-{}", prop, std::process::id()));
    let _ = fs::create_dir_all(&d);
    d
}

fn crash_signature(prop: &str, status: &str) -> String {
    Violation::new("crash", format!("worker process died: {}", status)).signature(prop)
}

fn status_text(st: &std::process::ExitStatus) -> String {
    use std::os::unix::process::ExitStatusExt;
    match (st.code(), st.signal()) {
        (Some(c), _) => format!("exit code {}", c),
        (None, Some(s)) => format!("signal {}", s),
        _ => "unknown".to_string(),
    }
}

pub fn batch(engine: &dyn Engine, a: &BatchArgs) -> i32 {
    let t0 = Instant::now();
    let info = engine.info();
    let dir = scratch_dir(&a.prop);
    let deadline = now_secs() + a.secs;
    let mut agg = Agg {
        evaluations: 0,
        nontrivial: BTreeSet::new(),
        shapes: BTreeSet::new(),
        traces: BTreeSet::new(),
        counters: BTreeMap::new(),
        fired: BTreeMap::new(),
        decisions: 0,
        samples: Vec::new(),
        violations: Vec::new(),
        first_seed: None,
        last_seed: None,
        deadline_hit: false,
    };
    let mut harness_errors: Vec<String> = Vec::new();
    let mut site_model: BTreeMap<String, String> = BTreeMap::new();
    if a.prop == "C14" {
        // the scheduler's model of every instrumented lock site, read from the sources this binary
        // was built against (see sitelint.rs)
        for (site, kind) in crate::sitelint::classify() {
            match kind {
                crate::sitelint::Kind::Unknown => {
                    println!(
                        "HARNESS-ERROR: instrumented lock site `{}`: the acquisition of the probed lock cannot be found after the hook (neither blocking nor try); the scheduler's model of that site is invalid",
                        site
                    );
                    return 2;
                }
                crate::sitelint::Kind::NonBlocking => {
                    println!("note: lock site `{}` is a try-acquisition in these sources: the scheduler lets the thread through when the lock is busy", site);
                    site_model.insert(site, "try-acquisition (thread proceeds when busy)".to_string());
                }
                crate::sitelint::Kind::Blocking => {
                    site_model.insert(site, "blocking acquisition (thread waits)".to_string());
                }
            }
        }
        if site_model.is_empty() {
            println!("HARNESS-ERROR: no instrumented lock site found under {}", crate::sitelint::gluon_root().display());
            return 2;
        }
    }

    // (worker index, next run index)
    let mut pending: Vec<(u64, u64)> = (0..a.workers).map(|w| (w, w)).collect();
    let mut generation = 0;
    while !pending.is_empty() {
        generation += 1;
        let mut children = Vec::new();
        for &(w, from) in &pending {
            if from >= a.runs {
                continue;
            }
            let out = dir.join(format!("w{}-{}.log", w, generation));
            let _ = fs::remove_file(&out);
            let errfile = dir.join(format!("w{}-{}.err", w, generation));
            let child = Command::new(exe())
                .arg("worker")
                .args(["--prop", &a.prop, "--tier", &a.tier])
                .args(["--base", &a.base.to_string()])
                .args(["--from", &from.to_string(), "--to", &a.runs.to_string()])
                .args(["--stride", &a.workers.to_string()])
                .args(["--deadline", &deadline.to_string()])
                .arg("--out")
                .arg(&out)
                .stdout(Stdio::null())
                .stderr(fs::File::create(&errfile).map(Stdio::from).unwrap_or_else(|_| Stdio::null()))
                .spawn()
                .expect("spawn worker");
            children.push((w, out, errfile, child));
        }
        pending.clear();
        // wait for the workers; a worker whose output does not grow for `STALL` seconds is blocked
        // (a real OS-level deadlock or an endless loop inside one run): kill it and attribute the
        // hang to the run it was executing
        const STALL: u64 = 150;
        let mut finished: Vec<(u64, PathBuf, PathBuf, std::process::ExitStatus, bool)> = Vec::new();
        let mut progress: Vec<(u64, Instant)> = children.iter().map(|_| (0, Instant::now())).collect();
        let mut active: Vec<Option<(u64, PathBuf, PathBuf, std::process::Child)>> =
            children.into_iter().map(Some).collect();
        while active.iter().any(|c| c.is_some()) {
            for (idx, slot) in active.iter_mut().enumerate() {
                let done = match slot {
                    Some((_, out, _, child)) => match child.try_wait() {
                        Ok(Some(st)) => Some((st, false)),
                        Ok(None) => {
                            let len = fs::metadata(&*out).map(|m| m.len()).unwrap_or(0);
                            if len != progress[idx].0 {
                                progress[idx] = (len, Instant::now());
                                None
                            } else if progress[idx].1.elapsed() > Duration::from_secs(STALL) {
                                let _ = child.kill();
                                child.wait().ok().map(|st| (st, true))
                            } else {
                                None
                            }
                        }
                        Err(_) => None,
                    },
                    None => None,
                };
                if let Some((st, stalled)) = done {
                    let (w, out, errfile, _) = slot.take().unwrap();
                    finished.push((w, out, errfile, st, stalled));
                }
            }
            std::thread::sleep(Duration::from_millis(20));
        }
        for (w, out, errfile, status, stalled) in finished {
            let text = fs::read_to_string(&out).unwrap_or_default();
            let mut started: Option<(u64, u64)> = None;
            let mut last_viol_index: Option<u64> = None;
            let mut recycle_next: Option<u64> = None;
            for line in text.lines() {
                let mut it = line.splitn(4, ' ');
                let tag = it.next().unwrap_or("");
                match tag {
                    "START" => {
                        let i = it.next().and_then(|x| x.parse().ok()).unwrap_or(0);
                        let s = it.next().and_then(|x| x.parse().ok()).unwrap_or(0);
                        started = Some((i, s));
                    }
                    "DONE" => {
                        let _i: u64 = it.next().and_then(|x| x.parse().ok()).unwrap_or(0);
                        let seed: u64 = it.next().and_then(|x| x.parse().ok()).unwrap_or(0);
                        let d: Value = serde_json::from_str(it.next().unwrap_or("{}")).unwrap_or(Value::Null);
                        started = None;
                        agg.evaluations += 1;
                        agg.first_seed.get_or_insert(seed);
                        agg.last_seed = Some(seed);
                        let shape = d["shape"].as_u64().unwrap_or(0);
                        let trace = d["trace"].as_u64().unwrap_or(0);
                        agg.shapes.insert(shape);
                        agg.traces.insert(trace);
                        if d["nontrivial"].as_bool().unwrap_or(false) {
                            agg.nontrivial.insert(trace);
                        }
                        agg.decisions += d["decisions"].as_u64().unwrap_or(0);
                        if let Some(c) = d["counters"].as_object() {
                            for (k, v) in c {
                                *agg.counters.entry(k.clone()).or_insert(0) += v.as_u64().unwrap_or(0);
                            }
                        }
                        if let Some(c) = d["fired"].as_object() {
                            for (k, v) in c {
                                *agg.fired.entry(k.clone()).or_insert(0) += v.as_u64().unwrap_or(0);
                            }
                        }
                        if agg.samples.len() < 3 && !d["sample"].is_null() {
                            agg.samples.push(json!({ "seed": seed, "case": d["sample"] }));
                        }
                    }
                    "VIOL" => {
                        let mut it = line.splitn(3, ' ');
                        let _ = it.next();
                        let _seed: u64 = it.next().and_then(|x| x.parse().ok()).unwrap_or(0);
                        let r: Value = serde_json::from_str(it.next().unwrap_or("{}")).unwrap_or(Value::Null);
                        if let Some((i, _)) = started {
                            last_viol_index = Some(i);
                        }
                        started = None;
                        agg.evaluations += 1;
                        agg.violations.push(r);
                    }
                    "DEADLINE" => agg.deadline_hit = true,
                    "RECYCLE" => recycle_next = it.next().and_then(|x| x.parse().ok()),
                    _ => {}
                }
            }
            let ok = status.success();
            if !ok {
                let st = if stalled {
                    format!("no progress for {} s, killed", STALL)
                } else {
                    status_text(&status)
                };
                let mut next = None;
                if status.code() == Some(96) && recycle_next.is_some() {
                    // the worker grew too big and asked to be replaced
                    *agg.counters.entry("worker_processes_recycled".to_string()).or_insert(0) += 1;
                    next = recycle_next;
                } else if status.code() == Some(98) {
                    // the scheduler watchdog fired: the token holder was blocked outside of every
                    // scheduling point (harness limitation, see sched.rs). Inconclusive, not a
                    // violation; too many of them make the batch a harness error below
                    *agg.counters.entry("inconclusive_harness_stall".to_string()).or_insert(0) += 1;
                    if let Some((i, _)) = started {
                        agg.evaluations += 1;
                        next = Some(i + a.workers);
                    }
                } else if let Some((i, seed)) = started {
                    // the worker died inside run i without reporting: a crash of the host process
                    agg.evaluations += 1;
                    // the class of the workload (if the engine has classes) makes the signature specific
                    let class = {
                        let mut rng = crate::prng::Rng::new(engine::workload_seed(seed));
                        let w = engine.generate(&mut rng, &a.tier);
                        w["class"].as_str().map(|c| format!(" [workload class {}]", c)).unwrap_or_default()
                    };
                    let st = format!("{}{}", st, class);
                    let v = Violation::new(if stalled { "hang" } else { "crash" }, format!("worker process died: {}", st));
                    let stderr_tail: String = fs::read_to_string(&errfile)
                        .unwrap_or_default()
                        .lines()
                        .rev()
                        .take(6)
                        .collect::<Vec<_>>()
                        .into_iter()
                        .rev()
                        .collect::<Vec<_>>()
                        .join(" | ");
                    agg.violations.push(json!({
                        "property": a.prop,
                        "seed": seed,
                        "tier": a.tier,
                        "workload": Value::Null,
                        "tape": Value::Null,
                        "violation": { "oracle": v.oracle, "detail": v.detail, "stderr": stderr_tail },
                        "signature": v.signature(&a.prop),
                    }));
                    next = Some(i + a.workers);
                } else if status.code() == Some(97) {
                    // reported a fatal violation itself; continue after it
                    next = last_viol_index.map(|i| i + a.workers);
                } else {
                    harness_errors.push(format!("worker {} failed outside of a run: {}", w, st));
                }
                if let Some(n) = next {
                    if now_secs() < deadline {
                        pending.push((w, n));
                    } else {
                        agg.deadline_hit = true;
                    }
                }
            }
        }
    }

    // ---- violations: dedupe by signature, known findings, minimise, report
    let known = load_known(&a.prop);
    // recorded findings come with a committed replay file: reproduce each one so that its
    // KNOWN-FINDING line does not depend on the random workload hitting it in this batch
    let mut probed: Vec<(String, String)> = Vec::new();
    for (prefix, what, replay) in load_known_replays(&a.prop) {
        let out = Command::new(exe())
            .arg("replay")
            .arg(verif_dir().join(&replay))
            .stdout(Stdio::piped())
            .stderr(Stdio::null())
            .output();
        if let Ok(out) = out {
            let stdout = String::from_utf8_lossy(&out.stdout).to_string();
            let sig = stdout
                .lines()
                .find(|l| l.starts_with("RESULT viol "))
                .map(|l| l["RESULT viol ".len()..].to_string())
                .unwrap_or_else(|| {
                    if stdout.lines().any(|l| l == "RESULT ok") {
                        String::new()
                    } else {
                        let class = fs::read_to_string(verif_dir().join(&replay))
                            .ok()
                            .and_then(|t| serde_json::from_str::<Value>(&t).ok())
                            .and_then(|v| v["workload"]["class"].as_str().map(|c| format!(" [workload class {}]", c)))
                            .unwrap_or_default();
                        crash_signature(&a.prop, &format!("{}{}", status_text(&out.status), class))
                    }
                });
            if !sig.is_empty() && sig.starts_with(prefix.as_str()) {
                probed.push((prefix, what));
            }
        }
    }
    let mut by_sig: BTreeMap<String, (Value, u64)> = BTreeMap::new();
    for v in agg.violations.drain(..) {
        let sig = v["signature"].as_str().unwrap_or("?").to_string();
        let e = by_sig.entry(sig).or_insert((v.clone(), 0));
        e.1 += 1;
        if v["seed"].as_u64() < e.0["seed"].as_u64() && false {
            e.0 = v;
        }
    }
    let mut exit = 0;
    let mut reported = Vec::new();
    let mut known_hits = Vec::new();
    let replays = verif_dir().join("replays");
    let _ = fs::create_dir_all(&replays);
    let mut minimised = 0;
    for (sig, (replay, count)) in by_sig {
        if let Some(k) = known.iter().find(|k| sig.starts_with(k.0.as_str())) {
            probed.retain(|p| p.0 != k.0);
            println!("KNOWN-FINDING: property={} {} [{} run(s), signature {}]", a.prop, k.1, count, sig);
            known_hits.push(json!({ "signature": sig, "runs": count, "what": k.1 }));
            continue;
        }
        let seed = replay["seed"].as_u64().unwrap_or(0);
        let path = replays.join(format!("{}-{}.json", a.prop, seed));
        let final_replay = if minimised < 6 {
            minimised += 1;
            match minimise(engine, &replay, &sig, &dir, &info.shrink) {
                Ok(r) => r,
                Err(e) => {
                    harness_errors.push(format!(
                        "violation `{}` (seed {}) did not reproduce in a fresh process: {}",
                        sig, seed, e
                    ));
                    let _ = fs::write(dir.join(format!("unreproduced-{}.json", seed)), replay.to_string());
                    continue;
                }
            }
        } else {
            replay.clone()
        };
        let _ = fs::write(&path, serde_json::to_string_pretty(&final_replay).unwrap_or_default());
        println!("VIOLATION property={} replay={}", a.prop, path.display());
        println!("  signature: {}", sig);
        println!("  detail: {}", final_replay["violation"]["detail"].as_str().unwrap_or(""));
        reported.push(json!({ "signature": sig, "runs": count, "replay": path.display().to_string() }));
        exit = 1;
    }

    for (prefix, what) in &probed {
        println!("KNOWN-FINDING: property={} {} [reproduced from its committed replay file, signature prefix {}]", a.prop, what, prefix);
        known_hits.push(json!({ "signature": prefix, "runs": 0, "what": what, "reproduced_from_replay_file": true }));
    }
    // ---- evidence
    // faults injected by the workload itself (not through the tape) are counted by probes
    let mut fired = agg.fired.clone();
    for kind in &info.fault_kinds {
        let name = kind.split_whitespace().next().unwrap_or("");
        if let Some(n) = agg.counters.get(name) {
            *fired.entry(name.to_string()).or_insert(0) += *n;
        }
    }
    for (k, n) in &agg.counters {
        if k.starts_with("fault_") && !fired.contains_key(k) {
            fired.insert(k.clone(), *n);
        }
    }
    // recorded sensitivity experiments (mutants and independently written breaking changes)
    let mut sensitivity = Vec::new();
    for sub in ["mutants/results", "seeded/results"] {
        if let Ok(rd) = fs::read_dir(verif_dir().join(sub)) {
            let mut files: Vec<PathBuf> = rd.filter_map(|e| e.ok().map(|e| e.path())).collect();
            files.sort();
            for f in files {
                let name = f.file_name().and_then(|n| n.to_str()).unwrap_or("").to_string();
                if name.starts_with(&format!("{}-", a.prop)) {
                    if let Some(first) = fs::read_to_string(&f).ok().and_then(|t| t.lines().next().map(|l| l.to_string())) {
                        sensitivity.push(first);
                    }
                }
            }
        }
    }
    let wall = t0.elapsed().as_secs_f64();
    let evaluations = agg.evaluations.max(1);
    let evidence = json!({
        "property_id": a.prop,
        "tier": a.tier,
        "seed": a.base,
        "level": "exploration",
        "coverage": {
            "evaluations": agg.evaluations,
            "distinct_nontrivial": agg.nontrivial.len(),
            "rule": info.rule,
            "samples": agg.samples,
            "runs_requested": a.runs,
            "stopped_at_wall_clock_cap": agg.deadline_hit,
            "first_run_seed": agg.first_seed,
            "last_run_seed": agg.last_seed,
            "runs_per_hour": (agg.evaluations as f64 / wall.max(0.001) * 3600.0) as u64,
            "simulated_time_decisions": agg.decisions,
            "decisions_per_run": agg.decisions / evaluations,
            "distinct_workloads": agg.shapes.len(),
            "distinct_interleavings": agg.traces.len(),
            "distinct_interleavings_measure": "distinct hash of (workload, full decision tape)",
            "faults_fired": fired,
            "fault_kinds": info.fault_kinds,
            "probes": agg.counters,
            "components_real": info.real,
            "components_stubbed": info.stubbed,
            "components_not_exercised": info.not_exercised,
            "known_findings_hit": known_hits,
            "sensitivity_recorded": sensitivity,
            "violations_reported": reported,
            "harness_errors": harness_errors,
            "lock_site_model": site_model,
            "workers": a.workers,
        },
        "assumptions": info.assumptions,
        "wall_s": wall,
        "violations": if exit == 1 { 1 } else { 0 },
    });
    let evdir = verif_dir().join("evidence");
    let _ = fs::create_dir_all(&evdir);
    let evpath = evdir.join(format!("{}.json", a.prop));
    fs::write(&evpath, serde_json::to_string_pretty(&evidence).unwrap_or_default()).expect("write evidence");
    let _ = fs::remove_dir_all(&dir);
    println!(
        "{} {}: {} runs ({} distinct non-trivial) in {:.1}s, {} decisions, faults fired {:?}",
        a.prop,
        a.tier,
        agg.evaluations,
        agg.nontrivial.len(),
        wall,
        agg.decisions,
        agg.fired
    );
    let stalls = agg.counters.get("inconclusive_harness_stall").copied().unwrap_or(0);
    if stalls > 3 && stalls * 50 > agg.evaluations {
        harness_errors.push(format!("{} of {} runs stalled outside of the scheduler", stalls, agg.evaluations));
    }
    if !harness_errors.is_empty() {
        for e in &harness_errors {
            println!("HARNESS-ERROR: {}", e);
        }
        if exit == 0 {
            return 2;
        }
    }
    if agg.evaluations == 0 {
        println!("HARNESS-ERROR: no run completed");
        return 2;
    }
    exit
}

fn load_known_replays(prop: &str) -> Vec<(String, String, String)> {
    if std::env::var("VERIF_IGNORE_KNOWN").is_ok() {
        return Vec::new();
    }
    let text = match fs::read_to_string(verif_dir().join("known_findings.json")) {
        Ok(t) => t,
        Err(_) => return Vec::new(),
    };
    let v: Value = serde_json::from_str(&text).unwrap_or(Value::Null);
    v["findings"]
        .as_array()
        .map(|fs| {
            fs.iter()
                .filter(|f| f["property"].as_str() == Some(prop) && f["replay"].is_string())
                .map(|f| {
                    (
                        f["signature_prefix"].as_str().unwrap_or("\u{0}").to_string(),
                        f["what"].as_str().unwrap_or("").to_string(),
                        f["replay"].as_str().unwrap_or("").to_string(),
                    )
                })
                .collect()
        })
        .unwrap_or_default()
}

fn load_known(prop: &str) -> Vec<(String, String)> {
    // (triage aid: report recorded findings like any other violation)
    if std::env::var("VERIF_IGNORE_KNOWN").is_ok() {
        return Vec::new();
    }
    let p = verif_dir().join("known_findings.json");
    let text = match fs::read_to_string(p) {
        Ok(t) => t,
        Err(_) => return Vec::new(),
    };
    let v: Value = serde_json::from_str(&text).unwrap_or(Value::Null);
    v["findings"]
        .as_array()
        .map(|fs| {
            fs.iter()
                .filter(|f| f["property"].as_str() == Some(prop))
                .map(|f| {
                    (
                        f["signature_prefix"].as_str().unwrap_or("\u{0}").to_string(),
                        f["what"].as_str().unwrap_or("").to_string(),
                    )
                })
                .collect()
        })
        .unwrap_or_default()
}

// ---------------------------------------------------------------------------------------------
// minimisation through fresh processes

struct Tester<'a> {
    dir: &'a Path,
    target: &'a str,
    prop: &'a str,
    budget: u32,
    n: u32,
}

impl<'a> Tester<'a> {
    /// Runs the candidate in a fresh process. Returns Some(recorded tape) if it fails with the
    /// target signature.
    fn fails(&mut self, cand: &Value) -> Option<Value> {
        if self.budget == 0 {
            return None;
        }
        self.budget -= 1;
        self.n += 1;
        let file = self.dir.join(format!("cand-{}.json", self.n));
        let res = self.dir.join(format!("cand-{}.result", self.n));
        let _ = fs::remove_file(&res);
        fs::write(&file, cand.to_string()).ok()?;
        let mut child = Command::new(exe())
            .arg("replay")
            .arg(&file)
            .arg("--result")
            .arg(&res)
            .stdout(Stdio::piped())
            .stderr(Stdio::null())
            .spawn()
            .ok()?;
        // watchdog: a replay that takes forever is treated as "does not fail the same way"
        let t0 = Instant::now();
        let status = loop {
            match child.try_wait() {
                Ok(Some(st)) => break st,
                Ok(None) => {
                    let hang_target = self.target.contains("/hang/worker process died");
                    if t0.elapsed() > Duration::from_secs(if hang_target { 30 } else { 60 }) {
                        let _ = child.kill();
                        let _ = child.wait();
                        // a run that blocks again reproduces a reported hang
                        return if hang_target { Some(Value::Null) } else { None };
                    }
                    std::thread::sleep(Duration::from_millis(2));
                }
                Err(_) => return None,
            }
        };
        let mut stdout = String::new();
        if let Some(mut o) = child.stdout.take() {
            use std::io::Read;
            let _ = o.read_to_string(&mut stdout);
        }
        let sig = if let Some(l) = stdout.lines().find(|l| l.starts_with("RESULT viol ")) {
            l["RESULT viol ".len()..].to_string()
        } else if stdout.lines().any(|l| l == "RESULT ok") {
            return None;
        } else {
            let class = cand["workload"]["class"]
                .as_str()
                .map(|c| format!(" [workload class {}]", c))
                .unwrap_or_default();
            crash_signature(self.prop, &format!("{}{}", status_text(&status), class))
        };
        if sig != self.target {
            return None;
        }
        let tape = fs::read_to_string(&res)
            .ok()
            .and_then(|t| serde_json::from_str::<Value>(&t).ok())
            .map(|v| v["tape"].clone())
            .unwrap_or(Value::Null);
        Some(tape)
    }
}

fn minimise(
    engine: &dyn Engine,
    replay: &Value,
    sig: &str,
    dir: &Path,
    shrink: &[&str],
) -> Result<Value, String> {
    let mut cur = replay.clone();
    if cur["workload"].is_null() {
        // crash: regenerate the workload from the seed so that it can be shrunk
        let seed = cur["seed"].as_u64().unwrap_or(0);
        let tier = cur["tier"].as_str().unwrap_or("quick").to_string();
        let mut rng = crate::prng::Rng::new(engine::workload_seed(seed));
        cur["workload"] = engine.generate(&mut rng, &tier);
        cur["tape"] = json!({ "seed": engine::tape_seed(seed) });
    }
    let mut t = Tester {
        dir,
        target: sig,
        prop: engine.id(),
        budget: 160,
        n: 0,
    };
    // 0. must reproduce as is
    let tape0 = match t.fails(&cur) {
        Some(tape) => tape,
        None => {
            // explicit tape may be incomplete for fatal exits: fall back to the seeded tape
            let seed = cur["seed"].as_u64().unwrap_or(0);
            let mut alt = cur.clone();
            alt["tape"] = json!({ "seed": engine::tape_seed(seed) });
            match t.fails(&alt) {
                Some(tape) => {
                    cur = alt;
                    tape
                }
                None => return Err("replay gave a different result".to_string()),
            }
        }
    };
    if !tape0.is_null() && cur["tape"].get("explicit").is_none() {
        // prefer an explicit tape when it reproduces too
        let mut alt = cur.clone();
        alt["tape"] = tape0;
        if t.fails(&alt).is_some() {
            cur = alt;
        }
    }
    // 1. shrink workload arrays
    for ptr in shrink {
        let len = cur["workload"].pointer(ptr).and_then(|a| a.as_array()).map_or(0, |a| a.len());
        let mut chunk = (len / 2).max(1);
        while chunk >= 1 {
            let mut i = 0;
            loop {
                let arr = match cur["workload"].pointer(ptr).and_then(|a| a.as_array()) {
                    Some(a) => a.clone(),
                    None => break,
                };
                if i >= arr.len() || t.budget == 0 {
                    break;
                }
                let mut cand_arr = arr.clone();
                let end = (i + chunk).min(cand_arr.len());
                cand_arr.drain(i..end);
                let mut cand = cur.clone();
                *cand["workload"].pointer_mut(ptr).unwrap() = Value::Array(cand_arr);
                if t.fails(&cand).is_some() {
                    cur = cand;
                } else {
                    i += chunk;
                }
            }
            if chunk == 1 {
                break;
            }
            chunk /= 2;
        }
    }
    // 2. turn tape decisions into defaults
    if let Some(lists) = cur["tape"].get("explicit").and_then(|e| e.as_object()).cloned() {
        for (kind, list) in lists {
            let list: Vec<u64> = list
                .as_array()
                .map(|l| l.iter().map(|x| x.as_u64().unwrap_or(0)).collect())
                .unwrap_or_default();
            let nonzero: Vec<usize> = list.iter().enumerate().filter(|(_, &x)| x != 0).map(|(i, _)| i).collect();
            if nonzero.is_empty() {
                continue;
            }
            let mut keep: Vec<usize> = nonzero.clone();
            let mut chunk = (keep.len() / 2).max(1);
            loop {
                let mut i = 0;
                while i < keep.len() && t.budget > 0 {
                    let mut cand_keep = keep.clone();
                    let end = (i + chunk).min(cand_keep.len());
                    cand_keep.drain(i..end);
                    let mut l = vec![0u64; list.len()];
                    for &k in &cand_keep {
                        l[k] = list[k];
                    }
                    let mut cand = cur.clone();
                    cand["tape"]["explicit"][&kind] = json!(l);
                    if t.fails(&cand).is_some() {
                        keep = cand_keep;
                        cur = cand;
                    } else {
                        i += chunk;
                    }
                }
                if chunk == 1 {
                    break;
                }
                chunk /= 2;
            }
        }
    }
    // 3. final confirmation in a fresh process
    t.budget = 1;
    if t.fails(&cur).is_none() {
        return Err("minimised replay did not reproduce".to_string());
    }
    cur["signature"] = json!(sig);
    cur["minimised_with_replays"] = json!(t.n);
    Ok(cur)
}

// ---------------------------------------------------------------------------------------------
// determinism self check

pub fn selfcheck(engine: &dyn Engine, prop: &str, tier: &str, base: u64, n: u64) -> i32 {
    let dir = scratch_dir(&format!("{}-selfcheck", prop));
    let mut hashes: Vec<BTreeMap<u64, String>> = Vec::new();
    for (round, workers) in [(0u64, 1u64), (1, 16), (2, 5)] {
        let mut map = BTreeMap::new();
        // (worker, from)
        let mut pending: Vec<(u64, u64)> = (0..workers).map(|w| (w, w)).collect();
        let mut generation = 0;
        while !pending.is_empty() {
            generation += 1;
            let mut children = Vec::new();
            for &(w, from) in &pending {
                if from >= n {
                    continue;
                }
                let out = dir.join(format!("r{}-w{}-{}.log", round, w, generation));
                let _ = fs::remove_file(&out);
                let child = Command::new(exe())
                    .arg("worker")
                    .args(["--prop", prop, "--tier", tier])
                    .args(["--base", &base.to_string()])
                    .args(["--from", &from.to_string(), "--to", &n.to_string()])
                    .args(["--stride", &workers.to_string()])
                    .args(["--deadline", "0"])
                    .arg("--out")
                    .arg(&out)
                    .stdout(Stdio::null())
                    .stderr(Stdio::null())
                    .spawn()
                    .expect("spawn");
                children.push((w, out, child));
            }
            pending.clear();
            for (w, out, mut child) in children {
                let status = child.wait().expect("wait");
                let mut cur_i = 0u64;
                let mut seen_start = false;
                for line in fs::read_to_string(&out).unwrap_or_default().lines() {
                    let mut it = line.splitn(4, ' ');
                    let tag = it.next().unwrap_or("");
                    if tag == "START" {
                        cur_i = it.next().and_then(|x| x.parse().ok()).unwrap_or(0);
                        seen_start = true;
                    }
                    if tag == "DONE" || tag == "VIOL" {
                        let rest = line
                            .splitn(if tag == "DONE" { 4 } else { 3 }, ' ')
                            .last()
                            .unwrap_or("");
                        let v: Value = serde_json::from_str(rest).unwrap_or(Value::Null);
                        let key = if tag == "DONE" {
                            format!("ok {} {} {} {}", v["trace"], v["decisions"], v["counters"], v["fired"])
                        } else {
                            format!("viol {} {}", v["signature"], v["violation"]["detail"])
                        };
                        map.insert(cur_i, key);
                    }
                }
                if !status.success() && seen_start {
                    map.entry(cur_i).or_insert_with(|| format!("died {}", status_text(&status)));
                    pending.push((w, cur_i + workers));
                }
            }
        }
        hashes.push(map);
    }
    let _ = fs::remove_dir_all(&dir);
    let _ = engine;
    let mut diffs = 0;
    for i in 0..n {
        let a = hashes[0].get(&i);
        for h in &hashes[1..] {
            if h.get(&i) != a {
                diffs += 1;
                if diffs < 20 {
                    println!("NONDETERMINISM run {}: {:?} vs {:?}", i, a, h.get(&i));
                }
            }
        }
    }
    let viols = hashes[0].values().filter(|v| v.starts_with("viol")).count();
    println!(
        "selfcheck {}: {} runs x 3 configurations (1, 16, 5 worker processes), {} runs ended in a (known) violation, {} differences",
        prop, n, viols, diffs
    );
    if diffs == 0 {
        0
    } else {
        2
    }
}
