//! Token-passing scheduler over real OS threads.
//!
//! Every logical thread is a real `std::thread` that runs only while it holds the token; at each
//! scheduling point it hands the token back and the next holder is chosen from the decision tape.
//! Exactly one OS thread executes gluon code at any instant, so an execution is a deterministic
//! function of the tape.
use std::{
    cell::Cell,
    collections::BTreeMap,
    future::Future,
    panic::{self, AssertUnwindSafe},
    sync::{Arc, Condvar, Mutex, MutexGuard},
    task::{Context, Poll, Wake, Waker},
    time::{Duration, Instant},
};

use crate::run::{self, Violation};

#[derive(Clone, Debug, PartialEq)]
enum St {
    Runnable,
    /// probe of the lock failed when `progress` had this value
    BlockedLock { site: &'static str, addr: usize, epoch: u64 },
    WaitingWake,
    Finished,
}

struct LT {
    name: String,
    state: St,
    wake: bool,
    last_site: &'static str,
    panic: Option<String>,
}

struct Inner {
    threads: Vec<LT>,
    current: Option<usize>,
    active: bool,
    steps: u64,
    progress: u64,
    switches: u64,
    hash: u64,
    /// probability (x/1024) of leaving the current thread at a scheduling point
    switch_rate: u32,
    step_cap: u64,
    capped: bool,
    probe_failed: BTreeMap<&'static str, u64>,
    sites: BTreeMap<&'static str, u64>,
    last_change: Instant,
}

struct Sched {
    inner: Mutex<Inner>,
    cv: Condvar,
}

static SCHED: Sched = Sched {
    inner: Mutex::new(Inner {
        threads: Vec::new(),
        current: None,
        active: false,
        steps: 0,
        progress: 0,
        switches: 0,
        hash: 0,
        switch_rate: 100,
        step_cap: 20_000,
        capped: false,
        probe_failed: BTreeMap::new(),
        sites: BTreeMap::new(),
        last_change: unsafe { std::mem::zeroed() },
    }),
    cv: Condvar::new(),
};

thread_local! {
    static ME: Cell<Option<usize>> = const { Cell::new(None) };
}

fn lock() -> MutexGuard<'static, Inner> {
    SCHED.inner.lock().unwrap_or_else(|e| e.into_inner())
}

pub fn me() -> Option<usize> {
    ME.with(|m| m.get())
}

pub fn is_logical() -> bool {
    me().is_some() && lock().active
}

/// Resets the scheduler for a new run
pub fn reset(switch_rate: u32) {
    let mut g = lock();
    g.threads.clear();
    g.current = None;
    g.active = false;
    g.steps = 0;
    g.progress = 0;
    g.switches = 0;
    g.hash = 0;
    g.switch_rate = switch_rate;
    g.capped = false;
    INTERN_CALLS.store(0, std::sync::atomic::Ordering::SeqCst);
    g.probe_failed.clear();
    g.sites.clear();
    g.last_change = Instant::now();
}

pub struct Summary {
    pub steps: u64,
    pub switches: u64,
    pub hash: u64,
    pub capped: bool,
    pub probe_failed: BTreeMap<&'static str, u64>,
    pub sites: BTreeMap<&'static str, u64>,
    pub panics: Vec<(String, String)>,
    pub threads: usize,
}

pub fn summary() -> Summary {
    let g = lock();
    Summary {
        steps: g.steps,
        switches: g.switches,
        hash: g.hash,
        capped: g.capped,
        probe_failed: g.probe_failed.clone(),
        sites: g.sites.clone(),
        panics: g
            .threads
            .iter()
            .filter_map(|t| t.panic.clone().map(|p| (t.name.clone(), p)))
            .collect(),
        threads: g.threads.len(),
    }
}

fn describe(g: &Inner) -> String {
    g.threads
        .iter()
        .enumerate()
        .map(|(i, t)| match &t.state {
            St::BlockedLock { site, addr, .. } => {
                let _ = addr;
                format!("T{}:{} waits for lock {}", i, t.name, site)
            }
            St::WaitingWake => format!("T{}:{} waits for a wake-up (last point {})", i, t.name, t.last_site),
            St::Runnable => format!("T{}:{} runnable", i, t.name),
            St::Finished => format!("T{}:{} finished", i, t.name),
        })
        .collect::<Vec<_>>()
        .join("; ")
}

/// The token holder `me` reaches a scheduling point and enters `state`. Returns when `me` holds
/// the token again (immediately if it is chosen to continue).
fn reschedule(me: usize, state: St, site: &'static str) {
    let mut g = lock();
    if !g.active {
        return;
    }
    g.threads[me].last_site = site;
    *g.sites.entry(site).or_insert(0) += 1;
    let state = match state {
        St::WaitingWake if g.threads[me].wake => St::Runnable,
        s => s,
    };
    if !matches!(state, St::BlockedLock { .. }) {
        // user code ran since the last scheduling point (a thread whose probe just failed again did
        // not run any)
        g.progress += 1;
    }
    g.threads[me].state = state.clone();
    // candidates, current thread first
    let progress = g.progress;
    let mut cands: Vec<usize> = Vec::new();
    if state == St::Runnable {
        cands.push(me);
    }
    for (i, t) in g.threads.iter().enumerate() {
        if i == me {
            continue;
        }
        let ok = match &t.state {
            St::Runnable => true,
            St::BlockedLock { epoch, .. } => *epoch < progress,
            St::WaitingWake => t.wake,
            St::Finished => false,
        };
        if ok {
            cands.push(i);
        }
    }
    if cands.is_empty() {
        if g.threads.iter().all(|t| t.state == St::Finished) {
            g.current = None;
            SCHED.cv.notify_all();
            return;
        }
        // nobody can run: deadlock (exact under token passing: lock states cannot change while
        // nobody runs)
        let report = describe(&g);
        let blocked_sites: std::collections::BTreeSet<&'static str> = g
            .threads
            .iter()
            .filter(|t| matches!(t.state, St::BlockedLock { .. }))
            .map(|t| t.last_site)
            .collect();
        drop(g);
        let parallel = !INLINE_SPAWN.load(std::sync::atomic::Ordering::SeqCst);
        if parallel {
            run::fatal(Violation::new(
                "parallel-import-tasks",
                format!("with the import tasks of one importer running in parallel: [deadlock] no logical thread can make progress: {}", report),
            ));
        }
        if ANCESTOR_HANDLES.load(std::sync::atomic::Ordering::SeqCst)
            && blocked_sites.contains("mark_child_roots.context")
            && (blocked_sites.contains("can_share_values_with.context") || blocked_sites.contains("thread.context"))
        {
            // recorded finding: see known_findings.json
            run::fatal(Violation::new(
                "deadlock-collect-vs-ancestor-handle",
                format!("lock order inversion: an ancestor collecting (it holds its own context and locks the context of every descendant) while a descendant, holding its own context, needs the ancestor's context to use a value the ancestor owns (handle pushed as an argument, channel send): {}", report),
            ));
        }
        run::fatal(Violation::new("deadlock", format!("no logical thread can make progress: {}", report)));
    }
    g.steps += 1;
    g.last_change = Instant::now();
    if g.steps > g.step_cap {
        g.capped = true;
    }
    let next = if cands.len() == 1 || g.capped {
        cands[0]
    } else {
        let stay_first = cands[0] == me;
        let rate = g.switch_rate;
        // decision from the tape (the scheduler lock is held: SIM is only taken below it)
        let c = if stay_first {
            run::decide("sched", cands.len() as u32, rate, 1024)
        } else {
            run::choose("sched", cands.len() as u32)
        };
        cands[c as usize]
    };
    g.hash = crate::prng::mix(&[g.hash, next as u64, crate::prng::hash_str(site)]);
    if next != me {
        g.switches += 1;
    }
    g.current = Some(next);
    if let St::WaitingWake = g.threads[next].state {
        g.threads[next].state = St::Runnable;
    }
    if next == me {
        return;
    }
    SCHED.cv.notify_all();
    if state == St::Finished {
        return;
    }
    // wait for the token
    while g.current != Some(me) {
        g = SCHED.cv.wait(g).unwrap_or_else(|e| e.into_inner());
    }
}

/// Hook handler installed into gluon (`gluon_vm::verif::sched_point`)
fn sched_point(site: &'static str, addr: usize, probe: &dyn Fn() -> bool) {
    let Some(me) = me() else { return };
    if !lock().active {
        return;
    }
    // a preemption opportunity before the acquisition (not at the very hot sites: there the lock is
    // only probed, which keeps the number of decisions per run useful)
    if site != "intern.gc" || INTERN_CALLS.fetch_add(1, std::sync::atomic::Ordering::SeqCst) % 8 == 7 {
        reschedule(me, St::Runnable, site);
    }
    loop {
        if probe() {
            return;
        }
        if nonblocking_site(site) {
            // the code tries the lock and goes on when it is busy: let it see the busy lock
            let mut g = lock();
            *g.probe_failed.entry(site).or_insert(0) += 1;
            return;
        }
        let epoch = {
            let mut g = lock();
            *g.probe_failed.entry(site).or_insert(0) += 1;
            g.progress
        };
        reschedule(me, St::BlockedLock { site, addr, epoch }, site);
    }
}

/// Sites whose acquisition is a try-acquisition in the sources this binary was built against
fn nonblocking_site(site: &str) -> bool {
    static SITES: std::sync::OnceLock<std::collections::BTreeMap<String, crate::sitelint::Kind>> = std::sync::OnceLock::new();
    SITES.get_or_init(crate::sitelint::classify).get(site) == Some(&crate::sitelint::Kind::NonBlocking)
}

/// Voluntary scheduling point (debug hook inside a running program)
pub fn yield_point(site: &'static str) {
    if let Some(me) = me() {
        reschedule(me, St::Runnable, site);
    }
}

pub fn install() {
    gluon_vm::verif::install_sched_point(Some(sched_point));
}

struct ThreadWaker(usize);

impl Wake for ThreadWaker {
    fn wake(self: Arc<Self>) {
        self.wake_by_ref()
    }
    fn wake_by_ref(self: &Arc<Self>) {
        let mut g = lock();
        if let Some(t) = g.threads.get_mut(self.0) {
            t.wake = true;
        }
    }
}

/// `futures::executor::block_on` for logical threads: a pending future parks the logical thread
/// until its waker fired
pub fn block_on<F: Future>(fut: F) -> F::Output {
    let me = me().expect("sched::block_on outside of a logical thread");
    let waker = Waker::from(Arc::new(ThreadWaker(me)));
    let mut cx = Context::from_waker(&waker);
    let mut fut = Box::pin(fut);
    loop {
        lock().threads[me].wake = false;
        match fut.as_mut().poll(&mut cx) {
            Poll::Ready(v) => return v,
            Poll::Pending => reschedule(me, St::WaitingWake, "pending"),
        }
    }
}

/// Creates a logical thread. It starts running when the scheduler hands it the token.
pub fn spawn<F: FnOnce() + Send + 'static>(name: &str, f: F) -> usize {
    let id = {
        let mut g = lock();
        g.threads.push(LT {
            name: name.to_string(),
            state: St::Runnable,
            wake: false,
            last_site: "spawn",
            panic: None,
        });
        g.threads.len() - 1
    };
    std::thread::Builder::new()
        .name(format!("sim-{}", name))
        .stack_size(16 << 20)
        .spawn(move || {
            ME.with(|m| m.set(Some(id)));
            {
                let mut g = lock();
                while g.current != Some(id) {
                    g = SCHED.cv.wait(g).unwrap_or_else(|e| e.into_inner());
                }
            }
            let r = panic::catch_unwind(AssertUnwindSafe(f));
            if r.is_err() {
                let msg = crate::engine::take_panic().unwrap_or_else(|| "panic".to_string());
                lock().threads[id].panic = Some(msg);
            }
            reschedule(id, St::Finished, "finish");
        })
        .expect("spawn logical thread");
    id
}

/// Runs every spawned logical thread to completion under the scheduler. Must be called from a
/// thread that is not a logical thread. Returns false if the watchdog fired (harness stall).
pub fn run_all() -> bool {
    {
        let mut g = lock();
        if g.threads.is_empty() {
            return true;
        }
        g.active = true;
        g.last_change = Instant::now();
        let n = g.threads.len() as u32;
        let first = run::choose("sched", n) as usize;
        g.current = Some(first);
        SCHED.cv.notify_all();
    }
    let mut g = lock();
    loop {
        if g.threads.iter().all(|t| t.state == St::Finished) {
            g.active = false;
            return true;
        }
        let (ng, _) = SCHED
            .cv
            .wait_timeout(g, Duration::from_millis(500))
            .unwrap_or_else(|e| e.into_inner());
        g = ng;
        if g.last_change.elapsed() > Duration::from_secs(25) {
            // the token holder is blocked outside of any scheduling point (an un-instrumented
            // lock held by a parked thread): a harness limitation, never reported as a violation
            eprintln!(
                "HARNESS-STALL: no scheduling decision for 25 s; token holder {:?}; {}",
                g.current,
                describe(&g)
            );
            return false;
        }
    }
}

/// When set, a spawned task runs to completion on the logical thread that spawned it (the import
/// tasks of one importer are then serialised; different importers still run concurrently)
/// The workload hands values owned by an ancestor thread to descendants running on other logical
/// threads while the ancestor itself runs (classification of the recorded lock order inversion)
pub static ANCESTOR_HANDLES: std::sync::atomic::AtomicBool = std::sync::atomic::AtomicBool::new(false);
/// `intern.gc` is by far the hottest site: only every 8th visit is a preemption opportunity
static INTERN_CALLS: std::sync::atomic::AtomicU64 = std::sync::atomic::AtomicU64::new(0);
pub static INLINE_SPAWN: std::sync::atomic::AtomicBool = std::sync::atomic::AtomicBool::new(false);

/// `futures::task::Spawn` seam: spawned futures become logical threads
pub struct SimSpawner;

impl futures::task::Spawn for SimSpawner {
    fn spawn_obj(&self, future: futures::task::FutureObj<'static, ()>) -> Result<(), futures::task::SpawnError> {
        if is_logical() {
            if INLINE_SPAWN.load(std::sync::atomic::Ordering::SeqCst) {
                block_on(future);
            } else {
                spawn("task", move || block_on(future));
            }
        } else {
            // set-up phase (no scheduler yet): run the task to completion right here
            match crate::exec::drive(future, 1_000_000, |_| {}) {
                crate::exec::Outcome::Ready(..) => {}
                _ => eprintln!("sim: a task spawned during set-up did not complete"),
            }
        }
        Ok(())
    }
}
