pub mod c05;
pub mod c06;
pub mod c07;
pub mod c12;
pub mod c13;
pub mod c14;
pub mod c15;
pub mod c16;
pub mod c17;
pub mod c17b;
pub mod c17c;

use crate::engine::Engine;

pub fn engine(id: &str) -> Option<&'static dyn Engine> {
    match id {
        "C05" => Some(&c05::C05),
        "C06" => Some(&c06::C06),
        "C07" => Some(&c07::C07),
        "C12" => Some(&c12::C12),
        "C13" => Some(&c13::C13),
        "C14" => Some(&c14::C14),
        "C15" => Some(&c15::C15),
        "C16" => Some(&c16::C16),
        "C17" => Some(&c17::C17),
        _ => None,
    }
}

pub const ALL: &[&str] = &["C05", "C06", "C07", "C12", "C13", "C14", "C15", "C16", "C17"];
