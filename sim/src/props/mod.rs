pub mod c05;

use crate::engine::Engine;

pub fn engine(id: &str) -> Option<&'static dyn Engine> {
    match id {
        "C05" => Some(&c05::C05),
        _ => None,
    }
}

pub const ALL: &[&str] = &["C05"];
