//! C05 — garbage collection is transparent and never frees a reachable value (`gcsim`)
use std::sync::atomic::{AtomicBool, Ordering};

use futures::task::Poll;
use gluon::{
    vm::{
        api::{Hole, OpaqueValue},
        thread::{HookFlags, ThreadInternal},
    },
    RootedThread, ThreadExt,
};
use gluon_vm::thread::RootedValue;
use serde_json::{json, Value};

use crate::{
    engine::{Engine, EngineInfo},
    gen::{self, Gen, Ty},
    heap,
    prng::Rng,
    render,
    run::{self, GcPolicy, Violation},
};

pub struct C05;

static HOOK_YIELDED: AtomicBool = AtomicBool::new(false);

type Val = RootedValue<RootedThread>;

fn cell_module(inits: &[(String, String)]) -> String {
    // { c0 = ref INIT0, .., c1 = lazy (\_ -> E1) } using the pure (ST) reference primitives, the
    // module value is therefore a plain record
    let mut s = String::from(gen::PREAMBLE);
    s.push_str("let r = import! std.st.reference.prim\nlet lz = import! std.lazy.prim\n");
    let mut fields = Vec::new();
    for (i, (kind, init)) in inits.iter().enumerate() {
        if kind == "ref" {
            fields.push(format!("c{} = r.ref ({})", i, init));
        } else {
            fields.push(format!("c{} = lz.lazy (\\u -> {})", i, init));
        }
    }
    s.push_str(&format!("{{ {} }}\n", fields.join(", ")));
    s
}

/// A program using a reference / a lazy value that lives and dies inside one evaluation
fn local_cell_program(rng: &mut Rng) -> String {
    let ty = {
        let mut g = Gen::new(rng, 4);
        g.data_ty(1)
    };
    let mut g = Gen::new(rng, 60);
    g.allow_match = false;
    g.max_loop = 12;
    let e0 = g.expr(&ty, 3);
    let e1 = g.expr(&ty, 4);
    let jty = g.data_ty(1);
    let junk = g.expr(&jty, 4);
    if g.rng.chance(1, 3) {
        // a coroutine (child thread) stores a fresh value into a cell owned by its parent, keeps
        // allocating (its own heap may be collected) and finishes; the parent reads the cell
        return format!(
            "{}let io = import! std.io.prim\nlet rf = import! std.reference.prim\nlet th = import! std.thread.prim\nio.flat_map (\\c -> io.flat_map (\\t -> io.flat_map (\\u -> io.flat_map (\\j -> io.flat_map (\\x -> io.wrap {{ x = x, j = j }}) (rf.load c)) (io.wrap ({}))) (th.resume t)) (th.spawn (io.flat_map (\\u -> io.flat_map (\\w -> io.wrap ()) (io.flat_map (\\k -> rf.(<-) c ({})) (io.wrap ({})))) (rf.(<-) c ({}))))) (rf.ref ({}))\n",
            gen::PREAMBLE, junk, e1, junk, e1, e0
        );
    }
    if g.rng.chance(1, 4) {
        // a coroutine forces a lazy value owned by its parent (the thunk runs on the child and
        // allocates there, the result has to end up in the parent's heap), allocates some more
        // and finishes; the parent forces the same lazy value afterwards
        return format!(
            "{}let io = import! std.io.prim\nlet lz = import! std.lazy.prim\nlet th = import! std.thread.prim\n(let l = lz.lazy (\\u -> {}) in io.flat_map (\\t -> io.flat_map (\\u -> io.flat_map (\\j -> io.wrap {{ x = lz.force l, j = j }}) (io.wrap ({}))) (th.resume t)) (th.spawn (io.flat_map (\\u -> io.flat_map (\\f -> io.wrap ({})) (io.wrap (lz.force l))) (io.wrap ()))))\n",
            gen::PREAMBLE, e1, junk, junk
        );
    }
    if g.rng.chance(1, 2) {
        format!(
            "{}let r = import! std.st.reference.prim\n(let c = r.ref ({}) in (let u = r.(<-) c ({}) in (let j = {} in (let x = r.load c in {{ x = x, j = j }}))))\n",
            gen::PREAMBLE, e0, e1, junk
        )
    } else {
        format!(
            "{}let lz = import! std.lazy.prim\n(let l = lz.lazy (\\u -> {}) in (let a = (\\x -> 0) (lz.force l) in (let j = {} in (let b = lz.force l in {{ a = a, b = b, j = j }}))))\n",
            gen::PREAMBLE, e1, junk
        )
    }
}

impl Engine for C05 {
    fn id(&self) -> &'static str {
        "C05"
    }

    fn info(&self) -> EngineInfo {
        EngineInfo {
            rule: "one run = a fresh VM with a tree of 1-4 gluon threads executing a generated operation list (evaluate generated program on thread t / keep result rooted / re-render a rooted handle / host collect(t) / drop handle / store or load a module-level reference / force a module-level lazy / call a module-level function / drop a child thread) twice: once with gluon's own collection threshold only, once with forced collections decided by the tape at every check_collect (policies: always, every k-th, Bernoulli p, exactly the n-th, off). Non-trivial = at least one forced collection fired while a program was running AND at least one operation produced a heap value; distinct = distinct hash of (workload, decision tape).",
            real: vec!["parser, typechecker, optimiser, bytecode compiler, VM interpreter, Gc (mark/sweep, generations), RootedValue, std.reference/std.lazy primitives, deep clone into the global heap, salsa query database"],
            stubbed: vec!["collection trigger: decided by the tape in addition to the real threshold (guarded hook in Gc::check_collect)", "freed blocks are poisoned and quarantined instead of returned to the allocator", "host program = the simulator's operation list"],
            not_exercised: vec!["std.io/fs/http/process/env/random", "tokio executor", "REPL", "C API"],
            fault_kinds: vec!["gc (forced collection at a check_collect)", "host_collect (explicit Thread::collect between operations)", "collect_while_suspended (a thread of the tree collects while an evaluation is suspended mid-frame at a debug-hook yield)", "hook (suspension point)"],
            assumptions: vec![
                "interleavings are explored at check_collect granularity (every allocation through alloc_and_collect); allocation sites that bypass check_collect cannot trigger a collection in production either",
                "the reference execution uses the natural threshold only; both executions are real schedules of the real collector",
            ],
            shrink: vec!["/ops"],
            quick: (14000, 150),
            thorough: (600000, 1100),
        }
    }

    fn generate(&self, rng: &mut Rng, _tier: &str) -> Value {
        let prelude = rng.chance(1, 8);
        let policy = GcPolicy::generate(rng);
        let nthreads = *rng.pick(&[0usize, 0, 1, 1, 2, 3]);
        let mut parents = Vec::new();
        for i in 0..nthreads {
            // parent index among threads 0..=i (0 = root)
            let p = if rng.chance(1, 2) { 0 } else { rng.below(i + 1) };
            parents.push(p);
        }
        // module level cells (a minority of runs: they hit a recorded finding)
        let module_cells = rng.chance(1, 10);
        let ncells = if module_cells { 1 + rng.below(3) } else { 0 };
        let mut cells = Vec::new();
        let mut cell_tys = Vec::new();
        for _ in 0..ncells {
            let ty = {
                let mut g = Gen::new(rng, 4);
                g.data_ty(1)
            };
            let kind = if rng.chance(2, 3) { "ref" } else { "lazy" };
            let init = if kind == "ref" {
                gen::argument(rng, &ty)
            } else {
                let mut g = Gen::new(rng, 25);
                g.max_loop = 8;
                g.allow_match = false;
                g.expr(&ty, 3)
            };
            cells.push(json!({ "kind": kind, "init": init, "clear": gen::argument(rng, &ty) }));
            cell_tys.push((kind.to_string(), ty));
        }
        // module level functions callable from every thread
        let nfuns = rng.below(3);
        let mut funs = Vec::new();
        let mut fun_tys = Vec::new();
        for _ in 0..nfuns {
            let fty = {
                let mut g = Gen::new(rng, 4);
                let n = 1 + g.rng.below(3);
                let args: Vec<Ty> = (0..n).map(|_| g.data_ty(1)).collect();
                let ret = if g.rng.chance(1, 4) {
                    Ty::Fun(vec![g.data_ty(0)], Box::new(g.data_ty(1)))
                } else {
                    g.data_ty(1)
                };
                Ty::Fun(args, Box::new(ret))
            };
            let src = gen::program(rng, &fty, 40, 4);
            funs.push(json!(src));
            fun_tys.push(fty);
        }

        let nops = 2 + rng.below(10);
        let suspend_run = rng.chance(1, 3);
        let mut ops = Vec::new();
        let mut handles = 0usize;
        for _ in 0..nops {
            let t = rng.below(nthreads + 1);
            let roll = rng.below(100);
            if roll < 40 {
                let ty = {
                    let mut g = Gen::new(rng, 4);
                    g.any_ty(2)
                };
                let fuel = *rng.pick(&[10, 30, 60, 120]);
                let prog = if rng.chance(1, 5) {
                    local_cell_program(rng)
                } else {
                    gen::program(rng, &ty, fuel, 5)
                };
                let keep = rng.chance(1, 2);
                if keep {
                    handles += 1;
                }
                ops.push(json!({ "op": "eval", "t": t, "prog": prog, "keep": keep, "suspend": suspend_run && rng.chance(1, 2) }));
            } else if roll < 55 {
                ops.push(json!({ "op": "collect", "t": t }));
            } else if roll < 62 && handles > 0 {
                ops.push(json!({ "op": "drop", "h": rng.below(handles) }));
            } else if roll < 72 && handles > 0 {
                ops.push(json!({ "op": "rerender", "h": rng.below(handles) }));
            } else if roll < 86 && ncells > 0 {
                let c = rng.below(ncells);
                let (kind, ty) = cell_tys[c].clone();
                if kind == "ref" {
                    if rng.chance(3, 5) {
                        let mut g = Gen::new(rng, 40);
                        g.max_loop = 12;
                        let e = g.expr(&ty, 4);
                        let hoisted = g.hoisted.concat();
                        ops.push(json!({ "op": "store", "t": t, "cell": c, "hoisted": hoisted, "expr": e }));
                    } else {
                        ops.push(json!({ "op": "load", "t": t, "cell": c }));
                    }
                } else {
                    ops.push(json!({ "op": "force", "t": t, "cell": c }));
                }
            } else if roll < 95 && nfuns > 0 {
                let f = rng.below(nfuns);
                if let Ty::Fun(args, ret) = &fun_tys[f] {
                    let mut a: Vec<String> = args.iter().map(|t| gen::argument(rng, t)).collect();
                    if let Ty::Fun(args2, _) = &**ret {
                        if rng.chance(2, 3) {
                            for t in args2 {
                                a.push(gen::argument(rng, t));
                            }
                        }
                    }
                    ops.push(json!({ "op": "call", "t": t, "f": f, "args": a }));
                }
            } else if nthreads > 0 && rng.chance(1, 3) {
                ops.push(json!({ "op": "dropthread", "t": 1 + rng.below(nthreads) }));
            } else if rng.chance(1, 4) {
                let ty = {
                    let mut g = Gen::new(rng, 4);
                    g.data_ty(2)
                };
                let prog = gen::program(rng, &ty, 40, 4);
                ops.push(json!({ "op": "tempthread", "t": t, "prog": prog }));
            } else {
                ops.push(json!({ "op": "collect", "t": t }));
            }
        }
        json!({
            "prelude": prelude,
            "gc": policy.to_json(),
            "collect_limit": *rng.pick(&[0u64, 0, 100, 1000, 100000]),
            "hook_rate": if suspend_run { *rng.pick(&[16u32, 64, 256]) } else { 0 },
            "threads": parents,
            "cells": cells,
            "funs": funs,
            "ops": ops,
        })
    }

    fn run(&self, w: &Value) -> Result<(), Violation> {
        let policy = GcPolicy::from_json(&w["gc"]);
        run::set_gc(GcPolicy::Off, false);
        let reference = execute(w, "reference")?;
        run::set_gc(policy, false);
        let forced_before = run::with(|s| s.gc_forced);
        let actual = execute(w, "forced")?;
        let forced = run::with(|s| s.gc_forced) - forced_before;
        run::count("forced_collections", forced);
        // oracle 1: transparency
        for (i, (a, b)) in reference.log.iter().zip(actual.log.iter()).enumerate() {
            if a != b {
                return Err(Violation::new(
                    "transparency",
                    format!(
                        "operation {} differs between collection schedules: natural=`{}` forced=`{}`",
                        i,
                        clip(a),
                        clip(b)
                    ),
                ));
            }
        }
        if reference.log.len() != actual.log.len() {
            return Err(Violation::new("transparency", "different number of log entries"));
        }
        let heap_values = reference.log.iter().filter(|l| l.contains('<') || l.contains('[') || l.contains('"')).count();
        run::with(|s| {
            s.stats.nontrivial = forced > 0 && heap_values > 0;
            s.stats.sample = Some(json!({ "ops": w["ops"].as_array().map(|o| o.iter().map(|op| {
                let mut op = op.clone();
                if let Some(p) = op.get("prog").and_then(|p| p.as_str()) { let p: String = p.chars().take(300).collect(); op["prog"] = json!(p); }
                op
            }).collect::<Vec<_>>()), "gc": w["gc"], "threads": w["threads"], "log": reference.log.iter().map(|l| clip(l)).collect::<Vec<_>>() }));
        });
        Ok(())
    }
}

fn clip(s: &str) -> String {
    if s.len() > 300 {
        let mut e = 300;
        while !s.is_char_boundary(e) {
            e -= 1;
        }
        format!("{}…", &s[..e])
    } else {
        s.to_string()
    }
}

struct Exec {
    log: Vec<String>,
}

fn err_line(e: &gluon::Error) -> String {
    let s = e.to_string();
    let first: String = s.lines().take(3).collect::<Vec<_>>().join(" / ");
    let kind = match e {
        gluon::Error::VM(_) => "vm",
        gluon::Error::Parse(_) => "parse",
        gluon::Error::Typecheck(_) => "typecheck",
        gluon::Error::Macro(_) => "macro",
        gluon::Error::Multiple(_) => "multiple",
        _ => "other",
    };
    format!("ERR {}: {}", kind, first)
}

fn execute(w: &Value, phase: &str) -> Result<Exec, Violation> {
    gluon_vm::verif::reset_heap_ids();
    let vm = gluon::new_vm();
    {
        let mut db = vm.get_database_mut();
        db.set_implicit_prelude(w["prelude"].as_bool().unwrap_or(false));
        db.set_run_io(true);
    }
    // thread tree
    let mut threads: Vec<Option<RootedThread>> = vec![Some(vm.clone())];
    // number of dropped child threads per parent thread index
    let mut dropped_children: Vec<u64> = Vec::new();
    if let Some(ps) = w["threads"].as_array() {
        for p in ps {
            let p = (p.as_u64().unwrap_or(0) as usize).min(threads.len() - 1);
            let parent = threads[p].clone().unwrap();
            let child = parent
                .new_thread()
                .map_err(|e| Violation::new("harness", format!("new_thread: {}", e)))?;
            threads.push(Some(child));
        }
    }
    let hook_rate = w["hook_rate"].as_u64().unwrap_or(0) as u32;
    if hook_rate > 0 {
        for t in threads.iter().flatten() {
            let mut context = t.context();
            context.set_hook(Some(Box::new(move |_, _| {
                let y = run::try_with(|s| {
                    if s.context.ends_with("suspended") {
                        s.tape.flip("hook", hook_rate, 1024)
                    } else {
                        false
                    }
                })
                .unwrap_or(false);
                if y {
                    HOOK_YIELDED.store(true, Ordering::SeqCst);
                    Poll::Pending
                } else {
                    Poll::Ready(Ok(()))
                }
            })));
            context.set_hook_mask(HookFlags::CALL_FLAG);
        }
    }
    let cells: Vec<(String, String, String)> = w["cells"]
        .as_array()
        .map(|cs| {
            cs.iter()
                .map(|c| {
                    (
                        c["kind"].as_str().unwrap_or("ref").to_string(),
                        c["init"].as_str().unwrap_or("0").to_string(),
                        c["clear"].as_str().unwrap_or("0").to_string(),
                    )
                })
                .collect()
        })
        .unwrap_or_default();
    let mut log = Vec::new();
    if let Err(e) = vm.load_script("simtypes", gen::TYPES_MODULE) {
        return Err(Violation::new("harness", format!("simtypes: {}", e)));
    }
    if !cells.is_empty() {
        let inits: Vec<(String, String)> = cells.iter().map(|c| (c.0.clone(), c.1.clone())).collect();
        let src = cell_module(&inits);
        if let Err(e) = vm.load_script("cells", &src) {
            log.push(format!("cells: {}", err_line(&e)));
        }
    }
    if let Some(funs) = w["funs"].as_array() {
        for (i, f) in funs.iter().enumerate() {
            if let Err(e) = vm.load_script(&format!("fun{}", i), f.as_str().unwrap_or("0")) {
                log.push(format!("fun{}: {}", i, err_line(&e)));
            }
        }
    }
    // warm up every thread (imports of the primitive modules) and take the baseline
    let clear_cells = |threads: &Vec<Option<RootedThread>>, log: &mut Vec<String>, tag: &str| {
        for (i, c) in cells.iter().enumerate() {
            if c.0 == "ref" {
                let src = format!(
                    "{}let cells = import! cells\nlet r = import! std.st.reference.prim\nr.(<-) cells.c{} ({})\n",
                    gen::PREAMBLE, i, c.2
                );
                let t = threads[0].as_ref().unwrap();
                if let Err(e) = t.run_expr::<OpaqueValue<RootedThread, Hole>>(&format!("clear_{}_{}", tag, i), &src) {
                    log.push(format!("clear{}: {}", i, err_line(&e)));
                }
            }
        }
    };
    for (i, t) in threads.iter().enumerate() {
        let t = t.as_ref().unwrap();
        // extern (primitive) modules are allocated in the heap of the thread that imports them
        // first: import all of them up front so that they belong to the baseline
        let src = format!(
            "{}let _ = import! std.io.prim\nlet _ = import! std.st.reference.prim\nlet _ = import! std.reference.prim\nlet _ = import! std.thread.prim\nlet _ = import! std.lazy.prim\n0\n",
            gen::PREAMBLE
        );
        if let Err(e) = t.run_expr::<OpaqueValue<RootedThread, Hole>>(&format!("warm{}", i), &src) {
            log.push(format!("warmup{}: {}", i, err_line(&e)));
        }
    }
    // size of one child `Thread` object in its parent's heap, measured on this build
    let thread_block = {
        // (a collection resets the threshold to twice the live size, so that the next allocation
        // cannot trigger one)
        vm.collect();
        let before = vm.allocated_memory();
        let t = vm.new_thread().map_err(|e| Violation::new("harness", format!("new_thread: {}", e)))?;
        let after = vm.allocated_memory();
        drop(t);
        after.saturating_sub(before)
    };
    dropped_children.resize(threads.len(), 0);
    clear_cells(&threads, &mut log, "a");
    collect_all(&threads);
    let baseline: Vec<usize> = threads
        .iter()
        .map(|t| t.as_ref().unwrap().allocated_memory())
        .collect();
    if let Some(limit) = w["collect_limit"].as_u64() {
        if limit > 0 {
            for t in threads.iter().flatten() {
                t.verif_set_collect_limit(limit as usize);
            }
        }
    }

    let mut handles: Vec<Option<Val>> = Vec::new();
    let mut lazy_forced = false;
    // a heap value was written into a module-level cell (recorded finding, see known_findings.json)
    let mut module_cell_written = cells.iter().any(|c| c.0 == "ref");
    let empty = Vec::new();
    let ops = w["ops"].as_array().unwrap_or(&empty);
    run::gc_active(true);
    for (i, op) in ops.iter().enumerate() {
        let kind = op["op"].as_str().unwrap_or("");
        let t_idx = (op["t"].as_u64().unwrap_or(0) as usize).min(threads.len() - 1);
        let t_idx = if threads[t_idx].is_some() { t_idx } else { 0 };
        let thread = threads[t_idx].clone().unwrap();
        run::set_context(format!("{} op {} `{}`", phase, i, kind));
        let children_before = thread.verif_root_counts().1;
        let entry = match kind {
            "eval" => {
                let src = op["prog"].as_str().unwrap_or("0");
                let name = format!("e{}", i);
                let result = if op["suspend"].as_bool().unwrap_or(false) && phase == "forced" {
                    // the evaluation is suspended at tape-chosen CALL events (debug hook returns
                    // Pending); while it is suspended in the middle of a frame the host collects a
                    // tape-chosen thread of the tree (a parent collecting marks this thread's
                    // roots too)
                    run::set_context(format!("{} op {} `eval` suspended", phase, i));
                    let fut = thread.run_expr_async::<OpaqueValue<RootedThread, Hole>>(&name, src);
                    let out = crate::exec::drive_with(fut, 200_000, |_| {
                        if !HOOK_YIELDED.swap(false, Ordering::SeqCst) {
                            return crate::exec::Next::Default;
                        }
                        let live: Vec<&RootedThread> = threads.iter().flatten().collect();
                        let c = run::choose("suspended_collect", live.len() as u32 + 1) as usize;
                        if c < live.len() {
                            run::count("collect_while_suspended", 1);
                            live[c].collect();
                        }
                        crate::exec::Next::Poll
                    });
                    match out {
                        crate::exec::Outcome::Ready(r, _) => r,
                        _ => return Err(Violation::new("hang", format!("{} op {}: suspended evaluation never completed", phase, i))),
                    }
                } else {
                    thread.run_expr::<OpaqueValue<RootedThread, Hole>>(&name, src)
                };
                match result {
                    Ok((v, ty)) => {
                        let s = format!("OK {} : {}", render::render(v.get_variant()), ty);
                        if op["keep"].as_bool().unwrap_or(false) {
                            handles.push(Some(v.into_inner()));
                        }
                        s
                    }
                    Err(e) => err_line(&e),
                }
            }
            "collect" => {
                run::count("host_collect", 1);
                thread.collect();
                "collected".to_string()
            }
            "drop" => {
                let h = op["h"].as_u64().unwrap_or(0) as usize;
                if h < handles.len() {
                    handles[h] = None;
                }
                "dropped".to_string()
            }
            "rerender" => {
                let h = op["h"].as_u64().unwrap_or(0) as usize;
                match handles.get(h) {
                    Some(Some(v)) => format!("H {}", render::render(v.get_variant())),
                    _ => "H -".to_string(),
                }
            }
            "store" => {
                run::set_context(format!("{} op {} `store` into a module-level cell", phase, i));
                let c = op["cell"].as_u64().unwrap_or(0);
                let src = format!(
                    "{}{}let cells = import! cells\nlet r = import! std.st.reference.prim\nr.(<-) cells.c{} ({})\n",
                    gen::PREAMBLE,
                    op["hoisted"].as_str().unwrap_or(""),
                    c,
                    op["expr"].as_str().unwrap_or("0")
                );
                module_cell_written = true;
                match thread.run_expr::<OpaqueValue<RootedThread, Hole>>(&format!("s{}", i), &src) {
                    Ok(_) => "stored".to_string(),
                    Err(e) => err_line(&e),
                }
            }
            "load" | "force" => {
                run::set_context(format!("{} op {} `{}` of a module-level cell", phase, i, kind));
                let c = op["cell"].as_u64().unwrap_or(0);
                let src = if kind == "load" {
                    format!(
                        "let cells = import! cells\nlet r = import! std.st.reference.prim\nr.load cells.c{}\n",
                        c
                    )
                } else {
                    lazy_forced = true;
                    module_cell_written = true;
                    format!(
                        "let cells = import! cells\nlet lz = import! std.lazy.prim\nlz.force cells.c{}\n",
                        c
                    )
                };
                match thread.run_expr::<OpaqueValue<RootedThread, Hole>>(&format!("l{}", i), &src) {
                    Ok((v, _)) => format!("CELL {}", render::render(v.get_variant())),
                    Err(e) => err_line(&e),
                }
            }
            "call" => {
                let f = op["f"].as_u64().unwrap_or(0);
                let args: Vec<String> = op["args"]
                    .as_array()
                    .map(|a| a.iter().map(|x| format!("({})", x.as_str().unwrap_or("0"))).collect())
                    .unwrap_or_default();
                let src = format!("{}let f = import! fun{}\nf {}\n", gen::PREAMBLE, f, args.join(" "));
                match thread.run_expr::<OpaqueValue<RootedThread, Hole>>(&format!("c{}", i), &src) {
                    Ok((v, _)) => format!("RET {}", render::render(v.get_variant())),
                    Err(e) => err_line(&e),
                }
            }
            "tempthread" => {
                // spawn a child, evaluate there, drop every handle on it again
                match thread.new_thread() {
                    Ok(child) => {
                        let src = op["prog"].as_str().unwrap_or("0");
                        let r = match child.run_expr::<OpaqueValue<RootedThread, Hole>>(&format!("tt{}", i), src) {
                            Ok((v, ty)) => format!("TEMP OK {} : {}", render::render(v.get_variant()), ty),
                            Err(e) => format!("TEMP {}", err_line(&e)),
                        };
                        drop(child);
                        dropped_children[t_idx] += 1;
                        r
                    }
                    Err(e) => format!("TEMP new_thread failed: {}", e),
                }
            }
            "dropthread" => {
                // only leaf threads whose handles are all gone are dropped
                let has_child = w["threads"]
                    .as_array()
                    .map(|ps| {
                        ps.iter().enumerate().any(|(j, p)| {
                            p.as_u64() == Some(t_idx as u64) && threads.get(j + 1).map_or(false, |t| t.is_some())
                        })
                    })
                    .unwrap_or(false);
                let has_handle = handles
                    .iter()
                    .flatten()
                    .any(|h| std::ptr::eq::<gluon::Thread>(&**h.vm(), &*thread));
                if t_idx != 0 && threads[t_idx].is_some() && !has_child && !has_handle {
                    // (its Thread object is part of the parent's baseline already)
                    threads[t_idx] = None;
                    "thread dropped".to_string()
                } else {
                    "thread kept".to_string()
                }
            }
            _ => "nop".to_string(),
        };
        if kind != "tempthread" {
            // coroutines spawned by the program itself (std.thread.prim.spawn): every handle on
            // them is gone at the end of the run, they count as dropped children too
            let spawned = thread.verif_root_counts().1.saturating_sub(children_before);
            if spawned > 0 {
                run::count("coroutines_spawned_by_program", spawned as u64);
                dropped_children[t_idx] += spawned as u64;
            }
        }
        drop(thread);
        if std::env::var("SIM_DEBUG").is_ok() {
            eprintln!("op {} {} => {}", i, kind, clip(&entry));
        }
        if entry.starts_with("ERR") || entry.contains(" ERR ") {
            run::count(if entry.contains("ERR vm") { "ops_runtime_error" } else { "ops_compile_error" }, 1);
        } else {
            run::count("ops_ok", 1);
        }
        log.push(entry);
        // oracle 2: nothing reachable is freed, ownership invariant
        run::gc_active(false);
        run::set_context(format!("{} heap walk after op {} `{}`", phase, i, kind));
        check_heap(&vm, &format!("{} after op {} ({})", phase, i, kind), module_cell_written)?;
        run::gc_active(true);
    }
    run::gc_active(false);
    run::set_context(format!("{} final re-rendering{}", phase, if module_cell_written { " (module-level cell written)" } else { "" }));
    // re-render every surviving handle at the end
    for (h, v) in handles.iter().enumerate() {
        if let Some(v) = v {
            log.push(format!("END H{} {}", h, render::render(v.get_variant())));
        }
    }
    for i in 0..cells.len() {
        if cells[i].0 == "ref" {
            let src = format!(
                "let cells = import! cells\nlet r = import! std.st.reference.prim\nr.load cells.c{}\n",
                i
            );
            match vm.run_expr::<OpaqueValue<RootedThread, Hole>>(&format!("end_l{}", i), &src) {
                Ok((v, _)) => log.push(format!("END CELL{} {}", i, render::render(v.get_variant()))),
                Err(e) => log.push(format!("END CELL{} {}", i, err_line(&e))),
            }
        }
    }
    run::set_context(format!("{} final checks", phase));
    check_heap(&vm, &format!("{} before final collect", phase), module_cell_written)?;

    // oracle 3: unreachable memory is reclaimed
    handles.clear();
    clear_cells(&threads, &mut log, "z");
    let live: Vec<Option<RootedThread>> = threads.clone();
    collect_all(&live);
    collect_all(&live);
    check_heap(&vm, &format!("{} after final collect", phase), module_cell_written)?;
    let walk = heap::walk(&vm);
    for (i, t) in live.iter().enumerate() {
        let t = match t {
            Some(t) => t,
            None => continue,
        };
        let allocated = t.allocated_memory();
        let (heap_id, _) = t.verif_heaps();
        let reachable = walk.bytes_per_heap.get(&heap_id).copied().unwrap_or(0);
        if allocated != reachable {
            return Err(Violation::new(
                "sweep-accounting",
                format!(
                    "{}: thread {} accounts {} bytes after collect but {} bytes are reachable",
                    phase, i, allocated, reachable
                ),
            ));
        }
        if !lazy_forced && allocated != baseline[i] {
            let dropped = dropped_children[i];
            let oracle = if dropped > 0
                && allocated > baseline[i]
                && allocated - baseline[i] == dropped as usize * thread_block
            {
                // exactly one `Thread` object per dropped child is retained (recorded finding)
                "reclaim-after-thread-drop"
            } else {
                "reclaim"
            };
            return Err(Violation::new(
                oracle,
                format!(
                    "thread {} holds {} bytes after dropping every handle and collecting, baseline was {} ({} of its child threads were dropped, a thread object is {} bytes; value stack {:?}, rooted values/child threads {:?}; {})",
                    i, allocated, baseline[i], dropped, thread_block, t.verif_stack_len(), t.verif_root_counts(), phase
                ),
            ));
        }
    }
    if hook_rate > 0 {
        for t in live.iter().flatten() {
            t.context().set_hook(None);
        }
    }
    drop(live);
    drop(threads);
    drop(vm);
    Ok(Exec { log })
}

fn collect_all(threads: &[Option<RootedThread>]) {
    // children first, then towards the root
    for t in threads.iter().rev().flatten() {
        t.collect();
    }
    for t in threads.iter().flatten() {
        t.collect();
    }
}

fn check_heap(vm: &RootedThread, at: &str, module_cell_written: bool) -> Result<(), Violation> {
    let global = vm.verif_global_heap();
    let walk = heap::walk(vm);
    if std::env::var("SIM_DEBUG").is_ok() {
        eprintln!("{}: objects {} bytes {:?} cross {:?} parents {:?} global {}", at, walk.objects, walk.bytes_per_heap, walk.cross_edges, walk.heap_parents, global);
    }
    run::count("heap_walks", 1);
    run::count("objects_walked", walk.objects);
    if let Some(&(from, owner, _)) = walk.freed_reached.first() {
        let what = if from == global && owner == vm.verif_heaps().0 && module_cell_written {
            "module-level cell: an object of the global heap points to a freed object of a thread heap after a write to a module-level reference/lazy"
        } else {
            "a freed object is reachable"
        };
        return Err(Violation::new(
            "reachable-freed",
            format!("{} ({}: object of heap {} reachable from heap {})", what, at, owner, from),
        ));
    }
    let bad = heap::ownership_violations(&walk);
    if let Some(&(from, to, n)) = bad.first() {
        let creator = vm.verif_heaps().0;
        let what = if from == global && to == creator && module_cell_written {
            "module-level cell: the global heap points into a thread heap after a write to a module-level reference/lazy"
        } else {
            "a heap points into a heap that is not one of its ancestors"
        };
        return Err(Violation::new(
            "ownership",
            format!(
                "{} ({}: heap {} holds {} pointer(s) into heap {} which is not one of its ancestors; heaps: {})",
                what,
                at,
                from,
                n,
                to,
                heap::describe_heaps(&walk)
            ),
        ));
    }
    Ok(())
}
