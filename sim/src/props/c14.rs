//! C14 — parallel execution is safe and equivalent to running alone (`threadsim`)
//!
//! Logical threads are real OS threads under the token-passing scheduler of `crate::sched`: the
//! tape decides who runs at every instrumented lock acquisition, debug-hook event, pending
//! future and spawn.
use std::{
    collections::BTreeMap,
    sync::{Arc, Mutex},
};

use futures::task::Poll;
use gluon::{
    query::CompilationBase,
    vm::{
        api::{Hole, OpaqueValue},
        thread::{HookFlags, ThreadInternal},
    },
    RootedThread, ThreadExt, VmBuilder,
};
use serde_json::{json, Value};

use crate::{
    engine::{Engine, EngineInfo},
    exec, externs,
    gen::{self, Gen},
    heap,
    prng::Rng,
    render,
    run::{self, GcPolicy, Violation},
    sched,
};

pub struct C14;

fn module_source(i: usize, base: i64, deps: &[usize], heavy: bool) -> String {
    let mut s = String::from("let sim = import! sim\nlet array = import! std.array.prim\n");
    for d in deps {
        s.push_str(&format!("let d{} = import! p{}\n", d, d));
    }
    s.push_str(&format!("let t = sim.tick \"p{}\"\n", i));
    let mut sum = format!("({} #Int+ (t #Int- t))", base);
    for d in deps {
        sum = format!("({} #Int+ d{}.v)", sum, d);
    }
    if heavy {
        // some allocation while the module body runs
        s.push_str("let junk = (rec let loop n acc = if n #Int< 1 then acc else loop (n #Int- 1) (array.append acc [n]) in loop 12 [0])\n");
        sum = format!("({} #Int+ (array.len junk))", sum);
    }
    s.push_str(&format!("{{ v = {}, n = \"p{}\" }}\n", sum, i));
    s
}

fn classify(e: &gluon::Error) -> String {
    let msg = e.to_string();
    let kind = match e {
        gluon::Error::VM(_) => "runtime",
        gluon::Error::Parse(_) => "parse",
        gluon::Error::Typecheck(_) => "typecheck",
        gluon::Error::Macro(_) => "macro",
        _ => "other",
    };
    format!("ERR {} {}", kind, msg.lines().next().unwrap_or(""))
}

fn build_vm(w: &Value) -> Result<RootedThread, Violation> {
    let fut = VmBuilder::new().verif_build_with_spawner(Some(Box::new(sched::SimSpawner)));
    let vm = match exec::drive(fut, 10_000_000, |_| {}) {
        exec::Outcome::Ready(vm, _) => vm,
        _ => return Err(Violation::new("harness", "vm construction did not complete")),
    };
    vm.get_database_mut()
        .set_implicit_prelude(w["prelude"].as_bool().unwrap_or(false));
    vm.get_database_mut().set_run_io(true);
    if w["gated"].as_bool().unwrap_or(false) {
        // the `rootref` program relies on a store whose result is not used
        vm.get_database_mut().set_optimize(false);
    }
    externs::install(&vm);
    let fut = vm.load_script_async("simtypes", gen::TYPES_MODULE);
    match exec::drive(fut, 10_000_000, |_| {}) {
        exec::Outcome::Ready(Ok(()), _) => {}
        _ => return Err(Violation::new("harness", "simtypes did not load")),
    }
    // the primitive modules are part of the environment
    let warm = format!("{}let _ = import! sim\nlet _ = import! std.io.prim\nlet _ = import! std.thread.prim\n0\n", gen::PREAMBLE);
    let fut = vm.run_expr_async::<OpaqueValue<RootedThread, Hole>>("warmup", &warm);
    match exec::drive(fut, 10_000_000, |_| {}) {
        exec::Outcome::Ready(Ok(_), _) => {}
        exec::Outcome::Ready(Err(e), _) => return Err(Violation::new("harness", format!("warmup: {}", e))),
        _ => return Err(Violation::new("harness", "warmup did not complete")),
    }
    if let Some(ms) = w["modules"].as_array() {
        for (i, m) in ms.iter().enumerate() {
            vm.get_database_mut()
                .add_module(format!("p{}", i), m.as_str().unwrap_or("0"));
        }
    }
    Ok(vm)
}

/// One operation on `thread`; `wait` turns a future into its output (solo: simple poll loop,
/// concurrent: the scheduler's block_on)
type Val = gluon::vm::thread::RootedValue<RootedThread>;

/// The two ends of the channel created by the root thread
struct Chan {
    sender: Val,
    receiver: Val,
}

fn make_channel(vm: &RootedThread) -> Result<Chan, Violation> {
    let src = "let ch = import! std.channel.prim\nch.channel [0]\n";
    let record = match exec::drive(vm.run_expr_async::<OpaqueValue<RootedThread, Hole>>("mkchan", src), 10_000_000, |_| {}) {
        exec::Outcome::Ready(Ok((v, _)), _) => v,
        exec::Outcome::Ready(Err(e), _) => return Err(Violation::new("harness", format!("channel creation failed: {}", e))),
        _ => return Err(Violation::new("harness", "channel creation did not complete")),
    };
    let field = |name: &str| -> Result<Val, Violation> {
        match record.get_variant().as_ref() {
            gluon::vm::api::ValueRef::Data(data) => data
                .lookup_field(vm, name)
                .map(|v| vm.root_value(v))
                .ok_or_else(|| Violation::new("harness", format!("channel record has no field {}", name))),
            _ => Err(Violation::new("harness", "channel record is not a record")),
        }
    };
    Ok(Chan { sender: field("sender")?, receiver: field("receiver")? })
}

/// Calls `src` (a function of one argument returning an IO action) with `arg` on `thread`
fn call_io(thread: &RootedThread, name: &str, src: &str, arg: &Val, concurrent: bool) -> String {
    use gluon::vm::api::{Getable, OwnedFunction, IO};
    macro_rules! wait {
        ($fut:expr) => {{
            let fut = $fut;
            if concurrent {
                Some(sched::block_on(fut))
            } else {
                match exec::drive(fut, 10_000_000, |_| {}) {
                    exec::Outcome::Ready(v, _) => Some(v),
                    _ => None,
                }
            }
        }};
    }
    let f = match wait!(thread.run_expr_async::<OpaqueValue<RootedThread, Hole>>(name, src)) {
        Some(Ok((f, _))) => f,
        Some(Err(e)) => return classify(&e),
        None => return "HANG".to_string(),
    };
    let mut f: OwnedFunction<fn(OpaqueValue<RootedThread, Hole>) -> IO<OpaqueValue<RootedThread, Hole>>> =
        Getable::from_value(thread, f.get_variant());
    let out = wait!(f.call_async(OpaqueValue::from_value(arg.clone())));
    match out {
        Some(Ok(IO::Value(v))) => format!("OK {}", render::render(v.get_variant())),
        Some(Ok(IO::Exception(e))) => format!("ERR io {}", e),
        Some(Err(e)) => format!("ERR call {}", e.to_string().lines().next().unwrap_or("")),
        None => "HANG".to_string(),
    }
}

const RECV_SRC: &str = "let ch = import! std.channel.prim\n\\r -> ch.recv r\n";

/// A heap value created by (and living in the heap of) `root`
fn make_root_value(root: &RootedThread, id: &str, n: u64, as_ref: bool) -> Result<Val, Violation> {
    let src = format!(
        "let array = import! std.array.prim\nlet st = import! std.st.reference.prim\n(rec let mk n acc = if n #Int< 1 then acc else mk (n #Int- 1) (array.append acc [n]) in {} (mk {} [0]))\n",
        if as_ref { "st.ref" } else { "" },
        n
    );
    match exec::drive(root.run_expr_async::<OpaqueValue<RootedThread, Hole>>(&format!("mk_{}", id), &src), 10_000_000, |_| {}) {
        exec::Outcome::Ready(Ok((v, _)), _) => Ok(v.into_inner()),
        exec::Outcome::Ready(Err(e), _) => Err(Violation::new("harness", format!("root value creation failed: {}", e))),
        _ => Err(Violation::new("harness", "root value creation did not complete")),
    }
}

fn perform(thread: &RootedThread, op: &Value, id: &str, concurrent: bool, chan: Option<&Chan>, arg: Option<Val>) -> String {
    let kind = op["op"].as_str().unwrap_or("");
    let src = op["src"].as_str().unwrap_or("0");
    macro_rules! wait {
        ($fut:expr) => {{
            let fut = $fut;
            if concurrent {
                Some(sched::block_on(fut))
            } else {
                match exec::drive(fut, 10_000_000, |_| {}) {
                    exec::Outcome::Ready(v, _) => Some(v),
                    _ => None,
                }
            }
        }};
    }
    match kind {
        "eval" | "burst" => {
            let name = format!("e_{}", id);
            match wait!(thread.run_expr_async::<OpaqueValue<RootedThread, Hole>>(&name, src)) {
                Some(Ok((v, t))) => format!("OK {} : {}", render::render(v.get_variant()), t),
                Some(Err(e)) => classify(&e),
                None => "HANG".to_string(),
            }
        }
        "load" => {
            let name = op["name"].as_str().unwrap_or("l").to_string();
            match wait!(thread.load_script_async(&name, src)) {
                Some(Ok(())) => "LOADED".to_string(),
                Some(Err(e)) => classify(&e),
                None => "HANG".to_string(),
            }
        }
        "typecheck" => {
            let name = format!("t_{}", id);
            match wait!(thread.typecheck_str_async(&name, src, None)) {
                Some(Ok((_, t))) => format!("TYPE {}", t),
                Some(Err(e)) => classify(&e),
                None => "HANG".to_string(),
            }
        }
        "collect" => {
            thread.collect();
            "collected".to_string()
        }
        "rootarg" => {
            // a function of this (child) thread is called with a value that lives in the root
            // thread's heap; the host's own handle is consumed by the call, so while the function
            // runs only this thread's stack keeps the value alive (the root's collector has to
            // find it there: Roots::mark_child_roots)
            use gluon::vm::api::{Getable, OwnedFunction};
            let Some(arg) = arg else { return "nop".to_string() };
            let rounds = op["rounds"].as_u64().unwrap_or(10);
            let src = format!(
                "let array = import! std.array.prim\nrec let cnt n = if n #Int< 1 then 0 else 1 #Int+ cnt (n #Int- 1)\n\\a -> (rec let loop r acc = if r #Int< 1 then acc else loop (r #Int- 1) (acc #Int+ array.len a #Int+ cnt 3 #Int+ array.index a 1) in loop {} 0)\n",
                rounds
            );
            let fname = format!("ra_{}", id);
            let f = match wait!(thread.run_expr_async::<OpaqueValue<RootedThread, Hole>>(&fname, &src)) {
                Some(Ok((f, _))) => f,
                Some(Err(e)) => return classify(&e),
                None => return "HANG".to_string(),
            };
            let mut f: OwnedFunction<fn(OpaqueValue<RootedThread, Hole>) -> OpaqueValue<RootedThread, Hole>> =
                Getable::from_value(thread, f.get_variant());
            match wait!(f.call_async(OpaqueValue::from_value(arg))) {
                Some(Ok(v)) => format!("OK {}", render::render(v.get_variant())),
                Some(Err(e)) => format!("ERR call {}", e.to_string().lines().next().unwrap_or("")),
                None => "HANG".to_string(),
            }
        }
        "rootref" => {
            // the argument is a reference cell owned by the root thread. The child loads its
            // content (an array in the root's heap), overwrites the cell, and then spins in pure
            // bytecode: for the whole loop the old content is referenced from this thread's stack
            // only, so a collection of the root has to find it there (mark_child_roots)
            use gluon::vm::api::{Getable, OwnedFunction};
            let Some(arg) = arg else { return "nop".to_string() };
            let rounds = op["rounds"].as_u64().unwrap_or(10);
            let fire = match op["gate"].as_u64() {
                Some(g) => format!("(sim.fire {} #Int- {})", g, g),
                None => "0".to_string(),
            };
            let src = format!(
                "let array = import! std.array.prim\nlet st = import! std.st.reference.prim\nlet sim = import! sim\nrec let cnt n = if n #Int< 1 then 0 else 1 #Int+ cnt (n #Int- 1)\nrec let spin r acc = if r #Int< 1 then acc else spin (r #Int- 1) (acc #Int+ cnt 3)\n\\c -> (let a = st.load c in (let u = st.(<-) c [0] in (let s = spin {} {} in array.len a #Int+ array.index a 1 #Int+ s)))\n",
                rounds, fire
            );
            let fname = format!("rr_{}", id);
            let f = match wait!(thread.run_expr_async::<OpaqueValue<RootedThread, Hole>>(&fname, &src)) {
                Some(Ok((f, _))) => f,
                Some(Err(e)) => return classify(&e),
                None => return "HANG".to_string(),
            };
            let mut f: OwnedFunction<fn(OpaqueValue<RootedThread, Hole>) -> OpaqueValue<RootedThread, Hole>> =
                Getable::from_value(thread, f.get_variant());
            match wait!(f.call_async(OpaqueValue::from_value(arg))) {
                Some(Ok(v)) => format!("OK {}", render::render(v.get_variant())),
                Some(Err(e)) => format!("ERR call {}", e.to_string().lines().next().unwrap_or("")),
                None => "HANG".to_string(),
            }
        }
        "send" => {
            let Some(chan) = chan else { return "nop".to_string() };
            let mut out = Vec::new();
            for (j, v) in op["vals"].as_array().map(|a| &a[..]).unwrap_or(&[]).iter().enumerate() {
                let src = format!("let ch = import! std.channel.prim\n\\s -> ch.send s {}\n", v);
                out.push(call_io(thread, &format!("s_{}_{}", id, j), &src, &chan.sender, concurrent));
            }
            format!("SEND {}", out.join(" | "))
        }
        "recv" => {
            let Some(chan) = chan else { return "nop".to_string() };
            let mut out = Vec::new();
            let work = op["work"].as_u64().unwrap_or(0);
            let src = if work > 0 {
                // the received value lives in the heap of the channel's owner; after the recv it is
                // referenced from this thread's stack only, for the whole loop
                // (with a gate: `sim.fire` tells the harness that the value is on this stack now)
                let (fire_ok, fire_err) = match op["gate"].as_u64() {
                    Some(g) => (format!("(sim.fire {} #Int- {})", g, g), format!("if sim.fire {} #Int< 0 then Err e else Err e", g)),
                    None => ("0".to_string(), "Err e".to_string()),
                };
                format!(
                    "let ch = import! std.channel.prim\nlet io = import! std.io.prim\nlet sim = import! sim\nlet array = import! std.array.prim\nlet {{ Result }} = import! std.types\nrec let cnt n = if n #Int< 1 then 0 else 1 #Int+ cnt (n #Int- 1)\nrec let spin r acc = if r #Int< 1 then acc else spin (r #Int- 1) (acc #Int+ cnt 3)\nlet loop r acc a = (spin r acc) #Int+ array.len a #Int+ array.index a 0\nlet work x =\n    match x with\n    | Ok a -> if (loop {} {} a) #Int< 0 then Err () else Ok a\n    | Err e -> {}\n\\r -> io.flat_map (\\x -> io.wrap (work x)) (ch.recv r)\n",
                    work, fire_ok, fire_err
                )
            } else {
                RECV_SRC.to_string()
            };
            for j in 0..op["n"].as_u64().unwrap_or(1) {
                out.push(call_io(thread, &format!("r_{}_{}", id, j), &src, &chan.receiver, concurrent));
            }
            format!("RECV {}", out.join(" | "))
        }
        "global" => {
            let name = op["name"].as_str().unwrap_or("p0");
            match thread.get_global::<OpaqueValue<RootedThread, Hole>>(name) {
                Ok(v) => format!("GLOBAL {}", render::render(v.get_variant())),
                Err(e) => format!("ERR global {}", e.to_string().lines().next().unwrap_or("")),
            }
        }
        _ => "nop".to_string(),
    }
}

impl Engine for C14 {
    fn id(&self) -> &'static str {
        "C14"
    }

    fn info(&self) -> EngineInfo {
        EngineInfo {
            rule: "one run = one VM built with the simulator's spawner (every import task becomes a logical thread), a pool of 3-8 inline modules with a random import DAG (bodies tick the harness counter, some allocate), and 2-6 (thorough tier: 2-16) logical threads (real OS threads under the token-passing scheduler), each owning a sibling gluon thread (or the root thread) and performing 1-3 operations: run_expr_async of a program importing an overlapping subset, load_script_async of a new module, typecheck_str_async, an allocation burst (generated program), an explicit collect (the root collecting locks and marks every child), get_global of a pool module; in half of the runs also channel traffic: one channel created by the root thread whose two ends are handed (as host handles pushed as function arguments) to every logical thread, which send 1-3 tagged arrays (deep-cloned into the root's heap from the sending OS thread) or poll recv 1-3 times (in two thirds of those runs the root thread itself stays idle, because a running/collecting root deadlocks against children using its channel: recorded finding). Scheduling points: every instrumented lock acquisition (context, child_threads, global gc, import compiler mutex) with try_lock probing, every k-th CALL debug-hook event inside running bytecode (while the context lock is held), every Pending of a logical thread, every spawn; forced collections in addition. Oracles: each operation's outcome equals the outcome of the same operation executed alone on a fresh VM; every module body ticks at most once; no logical thread panics; no freed object is dereferenced or reachable at quiescence; a state where no logical thread can run is a deadlock (exact under token passing); channel: the multiset of values received concurrently plus the values drained by the host at quiescence equals the multiset of values whose send was acknowledged, the values of one sender arrive in sending order at any one receiver, recv on an empty channel answers Err () (never blocks). Non-trivial = at least 10 context switches and at least two threads importing a common module; distinct = distinct hash of the context switch sequence.",
            real: vec!["Thread::context locking, mark_child_roots, new_thread, Import (compiler mutex, fork/snapshot), salsa query sharing between forks (in-progress query awaited through oneshot), global_inner promotion to the global heap, new_global_thunk, interpreter, Gc of every thread, tokio::sync::oneshot (as a plain data structure)"],
            stubbed: vec!["OS scheduler (token passing: one runnable OS thread at a time, next holder from the tape)", "executor and Spawn implementation (simulator's block_on, one logical thread per spawned task = unbounded pool)", "wakers"],
            not_exercised: vec!["tokio runtime", "interleavings between two scheduling points (instruction-level races)", "locks inside gluon-salsa/parking_lot are not scheduling points: a wait there with the holder parked stalls the run and is reported as a harness stall (exit 2), never as a violation", "changing a module's text concurrently (needs salsa's exclusive revision lock)"],
            fault_kinds: vec!["sched (context switch decisions)", "gc (forced collection)", "probe_failed (a logical thread found an instrumented lock held by a parked thread)"],
            assumptions: vec![
                "interleavings are explored at the granularity of the scheduling points listed in the rule",
                "a spawned task gets its own logical thread (the most permissive executor: it cannot manufacture deadlocks that only a too small pool would have)",
            ],
            shrink: vec!["/threads"],
            quick: (3000, 170),
            thorough: (30000, 1100),
        }
    }

    fn generate(&self, rng: &mut Rng, tier: &str) -> Value {
        let nmods = 3 + rng.below(6);
        let mut modules = Vec::new();
        for i in 0..nmods {
            let mut deps = Vec::new();
            for j in i + 1..nmods {
                if rng.chance(1, 3) {
                    deps.push(j);
                }
            }
            modules.push(json!(module_source(i, rng.range(0, 50), &deps, rng.chance(1, 3))));
        }
        let nthreads = if tier == "thorough" {
            *rng.pick(&[2usize, 2, 3, 3, 4, 6, 8, 12, 16])
        } else {
            *rng.pick(&[2usize, 2, 3, 3, 4, 6])
        };
        let mut threads = Vec::new();
        let mut extra = 0;
        for t in 0..nthreads {
            let nops = 1 + rng.below(3);
            let mut ops = Vec::new();
            for _ in 0..nops {
                let roll = rng.below(100);
                if roll < 50 {
                    let mut imports: Vec<usize> = (0..nmods).filter(|_| rng.chance(1, 3)).collect();
                    if imports.is_empty() {
                        imports.push(rng.below(nmods));
                    }
                    let mut src = String::new();
                    for m in &imports {
                        src.push_str(&format!("let a{} = import! p{}\n", m, m));
                    }
                    let fields: Vec<String> = imports.iter().map(|m| format!("r{} = a{}.v", m, m)).collect();
                    src.push_str(&format!("{{ {} }}\n", fields.join(", ")));
                    ops.push(json!({ "op": if rng.chance(1, 5) { "typecheck" } else { "eval" }, "src": src, "imports": imports }));
                } else if roll < 65 {
                    extra += 1;
                    let dep = rng.below(nmods);
                    let src = format!("let sim = import! sim\nlet d = import! p{}\nlet t = sim.tick \"x{}\"\n{{ v = d.v #Int+ {} #Int+ (t #Int- t) }}\n", dep, extra, extra);
                    ops.push(json!({ "op": "load", "name": format!("x{}", extra), "src": src, "imports": [dep] }));
                } else if roll < 75 {
                    // a value computed on another gluon thread (spawn_on) or on two threads at
                    // once (join) and moved back to this one
                    let mk = |rng: &mut Rng| {
                        let mut g = Gen::new(rng, 30);
                        g.allow_match = false;
                        g.max_loop = 8;
                        let t = g.data_ty(2);
                        g.expr(&t, 3)
                    };
                    let a = mk(rng);
                    let b = mk(rng);
                    let body = if rng.chance(1, 2) {
                        format!("io.flat_map (\\t -> io.flat_map (\\fut -> fut) (th.spawn_on t (io.flat_map (\\u -> io.wrap ({})) (io.wrap ())))) (th.new_thread ())", a)
                    } else {
                        format!("th.join (io.flat_map (\\u -> io.wrap ({})) (io.wrap ())) (io.flat_map (\\u -> io.wrap ({})) (io.wrap ()))", a, b)
                    };
                    let src = format!("{}let io = import! std.io.prim\nlet th = import! std.thread.prim\n{}\n", gen::PREAMBLE, body);
                    ops.push(json!({ "op": "burst", "src": src, "imports": [] }));
                } else if roll < 83 {
                    let ty = {
                        let mut g = Gen::new(rng, 4);
                        g.data_ty(2)
                    };
                    ops.push(json!({ "op": "burst", "src": gen::program(rng, &ty, 60, 5), "imports": [] }));
                } else if roll < 89 {
                    ops.push(json!({ "op": "rootarg", "n": 2 + rng.below(40), "rounds": *rng.pick(&[3u64, 20, 100]) }));
                } else if roll < 93 {
                    ops.push(json!({ "op": "collect" }));
                } else {
                    ops.push(json!({ "op": "global", "name": format!("p{}", rng.below(nmods)) }));
                }
            }
            threads.push(json!({ "gthread": if t == 0 && rng.chance(1, 2) { "root" } else { "child" }, "ops": ops }));
        }
        // programs compiled at the same moment that share record field names nobody has interned
        // yet; the fields are read through row-polymorphic accessors (looked up by name at run time)
        if rng.chance(1, 4) {
            let tag = rng.below(1_000_000);
            let nfields = 3 + rng.below(5);
            for th in threads.iter_mut() {
                if rng.chance(2, 3) {
                    let mut order: Vec<usize> = (0..nfields).collect();
                    if rng.chance(1, 2) {
                        order.reverse();
                    }
                    let mut src = String::new();
                    for k in &order {
                        src.push_str(&format!("let get{} r = r.fld{}_{}\n", k, tag, k));
                    }
                    let fields: Vec<String> = (0..nfields).map(|k| format!("fld{}_{} = {}", tag, k, k + 1)).collect();
                    src.push_str(&format!("let recd = {{ {} }}\n", fields.join(", ")));
                    let sum: Vec<String> = (0..nfields).map(|k| format!("get{} recd", k)).collect();
                    src.push_str(&format!("{}\n", sum.join(" #Int+ ")));
                    let ops = th["ops"].as_array_mut().unwrap();
                    let at = rng.below(ops.len() + 1).min(1);
                    ops.insert(at, json!({ "op": "burst", "src": src, "imports": [] }));
                }
            }
        }
        // a scenario of its own in 1 of 6 runs: the root thread runs and collects while children
        // are inside long calls whose argument lives in the root's heap
        let root_scenario = rng.chance(1, 6);
        if root_scenario {
            threads[0]["gthread"] = json!("root");
            {
                let ops = threads[0]["ops"].as_array_mut().unwrap();
                let at = if rng.chance(1, 2) { 0 } else { rng.below(ops.len() + 1) };
                ops.insert(at, json!({ "op": "collect" }));
                if rng.chance(1, 2) {
                    ops.push(json!({ "op": "collect" }));
                }
            }
            for th in threads.iter_mut().skip(1) {
                if rng.chance(2, 3) {
                    let ops = th["ops"].as_array_mut().unwrap();
                    let at = rng.below(ops.len() + 1);
                    ops.insert(at, json!({ "op": "rootarg", "n": 2 + rng.below(40), "rounds": *rng.pick(&[100u64, 400, 1500]) }));
                }
            }
        }
        // channel traffic: one channel created by the root thread, its two ends handed to every
        // logical thread; sends deep-clone the value into the root thread's heap from whichever OS
        // thread runs the sender
        let channel = rng.chance(1, 2) || root_scenario;
        let mut prefill: Vec<Value> = Vec::new();
        // gated: the root only starts once every child has its received value on its stack (the
        // window in which a received value is referenced from nowhere, between the pop from the
        // queue inside `recv` and the push on the receiver's stack, is a recorded finding of its own
        // and is only explored by the ungated variant)
        let gated = root_scenario && rng.chance(2, 3);
        if root_scenario {
            // values already queued in the root's heap; children receive them and keep working on
            // them: after the recv only the child's stack refers to the value
            for k in 0..threads.len() + rng.below(4) {
                prefill.push(json!([99, k as u64 + 1, rng.below(1000) as u64]));
            }
            for (t, th) in threads.iter_mut().enumerate().skip(1) {
                let ops = th["ops"].as_array_mut().unwrap();
                if gated {
                    ops.insert(0, json!({ "op": "rootref", "n": 2 + rng.below(40), "rounds": *rng.pick(&[20u64, 100, 400]), "gate": t }));
                } else {
                    let at = rng.below(ops.len() + 1);
                    ops.insert(at, json!({ "op": "recv", "n": 1 + rng.below(2), "work": *rng.pick(&[20u64, 100, 400]) }));
                }
            }
        }
        if channel {
            // with the root thread itself running, its collections deadlock against children using
            // the channel (recorded finding): most channel runs keep the root idle
            if !root_scenario && rng.chance(2, 3) {
                for th in threads.iter_mut() {
                    th["gthread"] = json!("child");
                }
            }
            let mut seq = 0u64;
            for (t, th) in threads.iter_mut().enumerate() {
                let n = rng.below(3);
                for _ in 0..n {
                    let op = if gated || rng.chance(3, 5) {
                        let vals: Vec<Value> = (0..1 + rng.below(3))
                            .map(|_| {
                                seq += 1;
                                json!([t as u64, seq, rng.below(1000) as u64])
                            })
                            .collect();
                        json!({ "op": "send", "vals": vals })
                    } else {
                        json!({ "op": "recv", "n": 1 + rng.below(3) })
                    };
                    let ops = th["ops"].as_array_mut().unwrap();
                    let at = rng.below(ops.len() + 1);
                    ops.insert(at, op);
                }
                // sequence numbers follow the order in which the thread performs its sends
                let mut n = 0u64;
                for op in th["ops"].as_array_mut().unwrap().iter_mut() {
                    if op["op"].as_str() == Some("send") {
                        for v in op["vals"].as_array_mut().unwrap().iter_mut() {
                            n += 1;
                            v[1] = json!(n);
                        }
                    }
                }
            }
        }
        // import tasks of one importer evaluate module bodies on the importer's own gluon thread; run
        // in parallel they interleave on that thread's stack (recorded finding): most runs serialise
        // them so that everything else stays visible
        let parallel = rng.chance(1, 4);
        json!({
            "class": if parallel { "parallel-imports" } else if channel { "serial-imports+channel" } else { "serial-imports" },
            "prelude": false,
            "channel": channel,
            "prefill": prefill,
            "gated": gated,
            "modules": modules,
            "threads": threads,
            "gc": GcPolicy::generate(rng).to_json(),
            "switch_rate": *rng.pick(&[20u32, 100, 300, 700]),
            "hook_every": *rng.pick(&[3u64, 11, 47, 211]),
        })
    }

    fn run(&self, w: &Value) -> Result<(), Violation> {
        let empty = Vec::new();
        let threads = w["threads"].as_array().unwrap_or(&empty);
        // ---- solo reference: every operation alone on a fresh VM
        sched::reset(0);
        run::set_gc(GcPolicy::Off, false);
        let mut expected: BTreeMap<String, String> = BTreeMap::new();
        for (t, th) in threads.iter().enumerate() {
            for (k, op) in th["ops"].as_array().unwrap_or(&empty).iter().enumerate() {
                let kind = op["op"].as_str().unwrap_or("");
                if kind == "collect" || kind == "recv" {
                    continue;
                }
                let id = format!("{}_{}", t, k);
                run::set_context(format!("solo reference of operation {}", id));
                let vm = build_vm(w)?;
                let solo_chan = if kind == "send" { Some(make_channel(&vm)?) } else { None };
                if (kind == "rootarg" || kind == "rootref") && th["gthread"].as_str() == Some("root") {
                    // only children use values of the root
                    continue;
                }
                if kind == "rootarg" || kind == "rootref" {
                    let arg = make_root_value(&vm, &id, op["n"].as_u64().unwrap_or(3), kind == "rootref")?;
                    let child = vm.new_thread().map_err(|e| Violation::new("harness", e.to_string()))?;
                    let out = perform(&child, op, &id, false, None, Some(arg));
                    expected.insert(id, out);
                    continue;
                }
                if kind == "global" {
                    // a global exists once somebody imported it: load it first
                    let name = op["name"].as_str().unwrap_or("p0");
                    let _ = exec::drive(vm.run_expr_async::<OpaqueValue<RootedThread, Hole>>("pre", &format!("let x = import! {}\n0\n", name)), 10_000_000, |_| {});
                }
                let out = perform(&vm, op, &id, false, solo_chan.as_ref(), None);
                drop(solo_chan);
                expected.insert(id, out);
            }
        }
        run::with(|s| s.ticks.clear());

        // ---- concurrent phase
        gluon_vm::verif::reset_heap_ids();
        let vm = build_vm(w)?;
        externs::reset_events();
        let chan = if w["channel"].as_bool().unwrap_or(false) { Some(Arc::new(make_channel(&vm)?)) } else { None };
        let mut prefilled: Vec<String> = Vec::new();
        if let Some(chan) = &chan {
            for (k, v) in w["prefill"].as_array().unwrap_or(&empty).iter().enumerate() {
                let src = format!("let ch = import! std.channel.prim\n\\s -> ch.send s {}\n", v);
                let out = call_io(&vm, &format!("prefill_{}", k), &src, &chan.sender, false);
                if !out.starts_with("OK <1") {
                    return Err(Violation::new("harness", format!("prefilling the channel gave `{}`", out)));
                }
                let a: Vec<String> = v.as_array().unwrap_or(&empty).iter().map(|x| x.to_string()).collect();
                prefilled.push(format!("[{}]", a.join(", ")));
            }
        }
        run::with(|s| s.ticks.clear());
        sched::reset(w["switch_rate"].as_u64().unwrap_or(100) as u32);
        let parallel = w["class"].as_str() == Some("parallel-imports");
        sched::INLINE_SPAWN.store(!parallel, std::sync::atomic::Ordering::SeqCst);
        // a channel owned by the root thread is used by its children while the root itself runs
        let root_runs = threads.iter().any(|th| th["gthread"].as_str() == Some("root"));
        sched::ANCESTOR_HANDLES.store(chan.is_some() && root_runs, std::sync::atomic::Ordering::SeqCst);
        let tag = move |v: Violation| -> Violation {
            if parallel {
                Violation::new("parallel-import-tasks", format!("with the import tasks of one importer running in parallel: [{}] {}", v.oracle, v.detail))
            } else {
                v
            }
        };
        let hook_every = w["hook_every"].as_u64().unwrap_or(11).max(1);
        let mut root_values = false;
        let results: Arc<Mutex<BTreeMap<String, String>>> = Arc::new(Mutex::new(BTreeMap::new()));
        let mut gthreads = Vec::new();
        for (t, th) in threads.iter().enumerate() {
            let gthread = if th["gthread"].as_str() == Some("root") {
                vm.clone()
            } else {
                vm.new_thread().map_err(|e| Violation::new("harness", e.to_string()))?
            };
            {
                let mut n = 0u64;
                let mut context = gthread.context();
                context.set_hook(Some(Box::new(move |_, _| {
                    n += 1;
                    if n % hook_every == 0 {
                        // a preemption in the middle of bytecode, the context lock is held
                        sched::yield_point("hook");
                    }
                    Poll::Ready(Ok(()))
                })));
                context.set_hook_mask(HookFlags::CALL_FLAG);
            }
            gthreads.push(gthread.clone());
            let ops: Vec<Value> = th["ops"].as_array().cloned().unwrap_or_default();
            let results = results.clone();
            let chan = chan.clone();
            let gates: Vec<i64> = if w["gated"].as_bool().unwrap_or(false) && th["gthread"].as_str() == Some("root") {
                threads
                    .iter()
                    .flat_map(|th| th["ops"].as_array().cloned().unwrap_or_default())
                    .filter_map(|op| op["gate"].as_i64())
                    .collect()
            } else {
                Vec::new()
            };
            // values of the root's heap that a child is going to use
            let mut args: BTreeMap<usize, Val> = BTreeMap::new();
            for (k, op) in ops.iter().enumerate() {
                let okind = op["op"].as_str().unwrap_or("");
                if (okind == "rootarg" || okind == "rootref") && th["gthread"].as_str() != Some("root") {
                    args.insert(k, make_root_value(&vm, &format!("{}_{}", t, k), op["n"].as_u64().unwrap_or(3), okind == "rootref")?);
                    root_values = true;
                }
            }
            sched::spawn(&format!("L{}", t), move || {
                for g in gates {
                    sched::block_on(externs::wait_event(g));
                }
                for (k, op) in ops.iter().enumerate() {
                    let id = format!("{}_{}", t, k);
                    let out = perform(&gthread, op, &id, true, chan.as_deref(), args.remove(&k));
                    results.lock().unwrap().insert(id, out);
                }
                drop(chan);
                drop(gthread);
            });
        }
        if root_values && root_runs {
            sched::ANCESTOR_HANDLES.store(true, std::sync::atomic::Ordering::SeqCst);
        }
        run::count("root_values_used_by_children", root_values as u64);
        run::set_gc(GcPolicy::from_json(&w["gc"]), true);
        let ungated_receivers = root_runs
            && !w["gated"].as_bool().unwrap_or(false)
            && threads.iter().any(|th| th["ops"].as_array().map_or(false, |o| o.iter().any(|op| op["op"].as_str() == Some("recv"))));
        if ungated_receivers {
            // recorded finding, see known_findings.json
            run::set_context("{{value in flight between channel recv and the receiver's stack while the channel's owner collects}} concurrent phase");
        } else {
            run::set_context("concurrent phase");
        }
        let ok = sched::run_all();
        run::gc_active(false);
        if !ok {
            // harness limitation, see `sched::run_all`
            std::process::exit(98);
        }
        let summary = sched::summary();
        run::count("sched_steps", summary.steps);
        run::count("context_switches", summary.switches);
        run::count("logical_threads", summary.threads as u64);
        run::count("step_cap_hit", summary.capped as u64);
        for (site, n) in &summary.probe_failed {
            run::count(&format!("probe_failed@{}", site), *n);
        }
        run::count("probe_failed", summary.probe_failed.values().sum());
        // ---- oracles
        if let Some((name, msg)) = summary.panics.first() {
            return Err(tag(Violation::new("panic", format!("logical thread {} panicked: {}", name, msg))));
        }
        let results = results.lock().unwrap().clone();
        for (id, exp) in &expected {
            let got = results.get(id).cloned().unwrap_or_else(|| "MISSING".to_string());
            // a global only exists once somebody imported the module: both answers are right
            if got.starts_with("ERR global") && got.contains("is not defined") && exp.starts_with("GLOBAL") {
                continue;
            }
            if &got != exp {
                return Err(tag(Violation::new(
                    "differs-from-solo",
                    format!("operation {} gave `{}` when run concurrently but `{}` when run alone", id, clip(&got), clip(exp)),
                )));
            }
        }
        if let Some(chan) = &chan {
            // every sent value is delivered exactly once; values of one sender arrive in sending
            // order at any one receiver; an empty channel answers `Err ()` instead of blocking
            let mut sent: Vec<String> = prefilled.clone();
            for (t, th) in threads.iter().enumerate() {
                for (k, op) in th["ops"].as_array().unwrap_or(&empty).iter().enumerate() {
                    if op["op"].as_str() == Some("send") {
                        let got = results.get(&format!("{}_{}", t, k)).cloned().unwrap_or_default();
                        let outs: Vec<&str> = got.trim_start_matches("SEND ").split(" | ").collect();
                        for (j, v) in op["vals"].as_array().unwrap_or(&empty).iter().enumerate() {
                            if outs.get(j).map_or(false, |o| o.starts_with("OK <1")) {
                                let a: Vec<String> = v.as_array().unwrap_or(&empty).iter().map(|x| x.to_string()).collect();
                                sent.push(format!("[{}]", a.join(", ")));
                            }
                        }
                    }
                }
            }
            let mut received: Vec<(String, String)> = Vec::new();
            for (id, got) in &results {
                if let Some(rest) = got.strip_prefix("RECV ") {
                    for o in rest.split(" | ") {
                        if let Some(v) = o.trim().strip_prefix("OK <1 ") {
                            received.push((id.clone(), v.trim_end_matches('>').trim().to_string()));
                        } else if o.trim() != "OK <0 0>" {
                            return Err(tag(Violation::new("channel", format!("recv in operation {} answered `{}`", id, clip(o)))));
                        }
                    }
                }
            }
            // what is still queued, drained by the host on the root thread
            loop {
                let o = call_io(&vm, "drain", RECV_SRC, &chan.receiver, false);
                if let Some(v) = o.trim().strip_prefix("OK <1 ") {
                    received.push(("drain".to_string(), v.trim_end_matches('>').trim().to_string()));
                } else if o.trim() == "OK <0 0>" {
                    break;
                } else {
                    return Err(tag(Violation::new("channel", format!("draining the channel answered `{}`", clip(&o)))));
                }
                if received.len() > sent.len() + 4 {
                    break;
                }
            }
            run::count("channel_sent", sent.len() as u64);
            run::count("channel_received_concurrently", received.iter().filter(|r| r.0 != "drain").count() as u64);
            let mut a: Vec<String> = sent.clone();
            let mut b: Vec<String> = received.iter().map(|r| r.1.replace(' ', "")).collect();
            for x in a.iter_mut() {
                *x = x.replace(' ', "");
            }
            a.sort();
            b.sort();
            if a != b {
                return Err(tag(Violation::new(
                    "channel",
                    format!("values sent {:?} but values received (incl. the final drain) {:?}", a, b),
                )));
            }
            // per (receiving operation or drain, sender): sequence numbers increase
            let mut last: BTreeMap<(String, String), u64> = BTreeMap::new();
            for (who, v) in &received {
                let nums: Vec<u64> = v.trim_matches(|c| c == '[' || c == ']').split(',').filter_map(|x| x.trim().parse().ok()).collect();
                if nums.len() == 3 {
                    // operations of one logical thread run in order: use the thread as receiver id
                    let rid = who.split('_').next().unwrap_or("").to_string();
                    let key = (rid, nums[0].to_string());
                    if let Some(prev) = last.get(&key) {
                        if *prev >= nums[1] {
                            return Err(tag(Violation::new(
                                "channel",
                                format!("receiver {} saw value #{} of sender {} after its value #{}", key.0, nums[1], nums[0], prev),
                            )));
                        }
                    }
                    last.insert(key, nums[1]);
                }
            }
        }
        let ticks = run::with(|s| s.ticks.clone());
        for (m, n) in &ticks {
            if *n > 1 {
                return Err(tag(Violation::new(
                    "evaluated-twice",
                    format!("the body of module {} was evaluated {} times", m, n),
                )));
            }
        }
        for g in &gthreads {
            g.context().set_hook(None);
        }
        let walk = heap::walk(&vm);
        if let Some(&(from, owner, _)) = walk.freed_reached.first() {
            return Err(Violation::new(
                "reachable-freed",
                format!("at quiescence a freed object of heap {} is reachable from heap {}", owner, from),
            ));
        }
        if let Some(&(from, to, n)) = heap::ownership_violations(&walk).first() {
            return Err(Violation::new(
                "ownership",
                format!("at quiescence heap {} holds {} pointer(s) into heap {} which is not one of its ancestors", from, n, to),
            ));
        }
        // shared imports
        let mut import_count: BTreeMap<u64, u64> = BTreeMap::new();
        for th in threads {
            let mut mine = std::collections::BTreeSet::new();
            for op in th["ops"].as_array().unwrap_or(&empty) {
                for m in op["imports"].as_array().unwrap_or(&empty) {
                    mine.insert(m.as_u64().unwrap_or(0));
                }
            }
            for m in mine {
                *import_count.entry(m).or_insert(0) += 1;
            }
        }
        let shared = import_count.values().any(|n| *n >= 2);
        run::with(|s| {
            s.stats.nontrivial = summary.switches >= 10 && shared && !summary.capped;
            s.stats.trace_hash = summary.hash;
            s.stats.sample = Some(json!({
                "threads": threads.iter().map(|t| json!({"gthread": t["gthread"], "ops": t["ops"].as_array().map(|o| o.iter().map(|x| x["op"].clone()).collect::<Vec<_>>())})).collect::<Vec<_>>(),
                "steps": summary.steps, "switches": summary.switches, "logical_threads": summary.threads,
                "sites": summary.sites, "results": results,
            }));
        });
        drop(chan);
        drop(gthreads);
        drop(vm);
        Ok(())
    }
}

fn clip(s: &str) -> String {
    if s.len() > 300 {
        let mut e = 300;
        while !s.is_char_boundary(e) {
            e -= 1;
        }
        format!("{}…", &s[..e])
    } else {
        s.to_string()
    }
}
