//! C14 — parallel execution is safe and equivalent to running alone (`threadsim`)
//!
//! Logical threads are real OS threads under the token-passing scheduler of `crate::sched`: the
//! tape decides who runs at every instrumented lock acquisition, debug-hook event, pending
//! future and spawn.
use std::{
    collections::BTreeMap,
    sync::{Arc, Mutex},
};

use futures::task::Poll;
use gluon::{
    query::CompilationBase,
    vm::{
        api::{Hole, OpaqueValue},
        thread::{HookFlags, ThreadInternal},
    },
    RootedThread, ThreadExt, VmBuilder,
};
use serde_json::{json, Value};

use crate::{
    engine::{Engine, EngineInfo},
    exec, externs,
    gen::{self, Gen},
    heap,
    prng::Rng,
    render,
    run::{self, GcPolicy, Violation},
    sched,
};

pub struct C14;

fn module_source(i: usize, base: i64, deps: &[usize], heavy: bool) -> String {
    let mut s = String::from("let sim = import! sim\nlet array = import! std.array.prim\n");
    for d in deps {
        s.push_str(&format!("let d{} = import! p{}\n", d, d));
    }
    s.push_str(&format!("let t = sim.tick \"p{}\"\n", i));
    let mut sum = format!("({} #Int+ (t #Int- t))", base);
    for d in deps {
        sum = format!("({} #Int+ d{}.v)", sum, d);
    }
    if heavy {
        // some allocation while the module body runs
        s.push_str("let junk = (rec let loop n acc = if n #Int< 1 then acc else loop (n #Int- 1) (array.append acc [n]) in loop 12 [0])\n");
        sum = format!("({} #Int+ (array.len junk))", sum);
    }
    s.push_str(&format!("{{ v = {}, n = \"p{}\" }}\n", sum, i));
    s
}

fn classify(e: &gluon::Error) -> String {
    let msg = e.to_string();
    let kind = match e {
        gluon::Error::VM(_) => "runtime",
        gluon::Error::Parse(_) => "parse",
        gluon::Error::Typecheck(_) => "typecheck",
        gluon::Error::Macro(_) => "macro",
        _ => "other",
    };
    format!("ERR {} {}", kind, msg.lines().next().unwrap_or(""))
}

fn build_vm(w: &Value) -> Result<RootedThread, Violation> {
    let fut = VmBuilder::new().verif_build_with_spawner(Some(Box::new(sched::SimSpawner)));
    let vm = match exec::drive(fut, 10_000_000, |_| {}) {
        exec::Outcome::Ready(vm, _) => vm,
        _ => return Err(Violation::new("harness", "vm construction did not complete")),
    };
    vm.get_database_mut()
        .set_implicit_prelude(w["prelude"].as_bool().unwrap_or(false));
    vm.get_database_mut().set_run_io(true);
    externs::install(&vm);
    let fut = vm.load_script_async("simtypes", gen::TYPES_MODULE);
    match exec::drive(fut, 10_000_000, |_| {}) {
        exec::Outcome::Ready(Ok(()), _) => {}
        _ => return Err(Violation::new("harness", "simtypes did not load")),
    }
    // the primitive modules are part of the environment
    let warm = format!("{}let _ = import! sim\nlet _ = import! std.io.prim\nlet _ = import! std.thread.prim\n0\n", gen::PREAMBLE);
    let fut = vm.run_expr_async::<OpaqueValue<RootedThread, Hole>>("warmup", &warm);
    match exec::drive(fut, 10_000_000, |_| {}) {
        exec::Outcome::Ready(Ok(_), _) => {}
        exec::Outcome::Ready(Err(e), _) => return Err(Violation::new("harness", format!("warmup: {}", e))),
        _ => return Err(Violation::new("harness", "warmup did not complete")),
    }
    if let Some(ms) = w["modules"].as_array() {
        for (i, m) in ms.iter().enumerate() {
            vm.get_database_mut()
                .add_module(format!("p{}", i), m.as_str().unwrap_or("0"));
        }
    }
    Ok(vm)
}

/// One operation on `thread`; `wait` turns a future into its output (solo: simple poll loop,
/// concurrent: the scheduler's block_on)
fn perform(thread: &RootedThread, op: &Value, id: &str, concurrent: bool) -> String {
    let kind = op["op"].as_str().unwrap_or("");
    let src = op["src"].as_str().unwrap_or("0");
    macro_rules! wait {
        ($fut:expr) => {{
            let fut = $fut;
            if concurrent {
                Some(sched::block_on(fut))
            } else {
                match exec::drive(fut, 10_000_000, |_| {}) {
                    exec::Outcome::Ready(v, _) => Some(v),
                    _ => None,
                }
            }
        }};
    }
    match kind {
        "eval" | "burst" => {
            let name = format!("e_{}", id);
            match wait!(thread.run_expr_async::<OpaqueValue<RootedThread, Hole>>(&name, src)) {
                Some(Ok((v, t))) => format!("OK {} : {}", render::render(v.get_variant()), t),
                Some(Err(e)) => classify(&e),
                None => "HANG".to_string(),
            }
        }
        "load" => {
            let name = op["name"].as_str().unwrap_or("l").to_string();
            match wait!(thread.load_script_async(&name, src)) {
                Some(Ok(())) => "LOADED".to_string(),
                Some(Err(e)) => classify(&e),
                None => "HANG".to_string(),
            }
        }
        "typecheck" => {
            let name = format!("t_{}", id);
            match wait!(thread.typecheck_str_async(&name, src, None)) {
                Some(Ok((_, t))) => format!("TYPE {}", t),
                Some(Err(e)) => classify(&e),
                None => "HANG".to_string(),
            }
        }
        "collect" => {
            thread.collect();
            "collected".to_string()
        }
        "global" => {
            let name = op["name"].as_str().unwrap_or("p0");
            match thread.get_global::<OpaqueValue<RootedThread, Hole>>(name) {
                Ok(v) => format!("GLOBAL {}", render::render(v.get_variant())),
                Err(e) => format!("ERR global {}", e.to_string().lines().next().unwrap_or("")),
            }
        }
        _ => "nop".to_string(),
    }
}

impl Engine for C14 {
    fn id(&self) -> &'static str {
        "C14"
    }

    fn info(&self) -> EngineInfo {
        EngineInfo {
            rule: "one run = one VM built with the simulator's spawner (every import task becomes a logical thread), a pool of 3-8 inline modules with a random import DAG (bodies tick the harness counter, some allocate), and 2-6 logical threads (real OS threads under the token-passing scheduler), each owning a sibling gluon thread (or the root thread) and performing 1-3 operations: run_expr_async of a program importing an overlapping subset, load_script_async of a new module, typecheck_str_async, an allocation burst (generated program), an explicit collect (the root collecting locks and marks every child), get_global of a pool module. Scheduling points: every instrumented lock acquisition (context, child_threads, global gc, import compiler mutex) with try_lock probing, every k-th CALL debug-hook event inside running bytecode (while the context lock is held), every Pending of a logical thread, every spawn; forced collections in addition. Oracles: each operation's outcome equals the outcome of the same operation executed alone on a fresh VM; every module body ticks at most once; no logical thread panics; no freed object is dereferenced or reachable at quiescence; a state where no logical thread can run is a deadlock (exact under token passing). Non-trivial = at least 10 context switches and at least two threads importing a common module; distinct = distinct hash of the context switch sequence.",
            real: vec!["Thread::context locking, mark_child_roots, new_thread, Import (compiler mutex, fork/snapshot), salsa query sharing between forks (in-progress query awaited through oneshot), global_inner promotion to the global heap, new_global_thunk, interpreter, Gc of every thread, tokio::sync::oneshot (as a plain data structure)"],
            stubbed: vec!["OS scheduler (token passing: one runnable OS thread at a time, next holder from the tape)", "executor and Spawn implementation (simulator's block_on, one logical thread per spawned task = unbounded pool)", "wakers"],
            not_exercised: vec!["tokio runtime", "interleavings between two scheduling points (instruction-level races)", "locks inside gluon-salsa/parking_lot are not scheduling points: a wait there with the holder parked stalls the run and is reported as a harness stall (exit 2), never as a violation", "changing a module's text concurrently (needs salsa's exclusive revision lock)"],
            fault_kinds: vec!["sched (context switch decisions)", "gc (forced collection)", "probe_failed (a logical thread found an instrumented lock held by a parked thread)"],
            assumptions: vec![
                "interleavings are explored at the granularity of the scheduling points listed in the rule",
                "a spawned task gets its own logical thread (the most permissive executor: it cannot manufacture deadlocks that only a too small pool would have)",
            ],
            shrink: vec!["/threads"],
            quick: (800, 170),
            thorough: (30000, 1100),
        }
    }

    fn generate(&self, rng: &mut Rng, _tier: &str) -> Value {
        let nmods = 3 + rng.below(6);
        let mut modules = Vec::new();
        for i in 0..nmods {
            let mut deps = Vec::new();
            for j in i + 1..nmods {
                if rng.chance(1, 3) {
                    deps.push(j);
                }
            }
            modules.push(json!(module_source(i, rng.range(0, 50), &deps, rng.chance(1, 3))));
        }
        let nthreads = *rng.pick(&[2usize, 2, 3, 3, 4, 6]);
        let mut threads = Vec::new();
        let mut extra = 0;
        for t in 0..nthreads {
            let nops = 1 + rng.below(3);
            let mut ops = Vec::new();
            for _ in 0..nops {
                let roll = rng.below(100);
                if roll < 50 {
                    let mut imports: Vec<usize> = (0..nmods).filter(|_| rng.chance(1, 3)).collect();
                    if imports.is_empty() {
                        imports.push(rng.below(nmods));
                    }
                    let mut src = String::new();
                    for m in &imports {
                        src.push_str(&format!("let a{} = import! p{}\n", m, m));
                    }
                    let fields: Vec<String> = imports.iter().map(|m| format!("r{} = a{}.v", m, m)).collect();
                    src.push_str(&format!("{{ {} }}\n", fields.join(", ")));
                    ops.push(json!({ "op": if rng.chance(1, 5) { "typecheck" } else { "eval" }, "src": src, "imports": imports }));
                } else if roll < 65 {
                    extra += 1;
                    let dep = rng.below(nmods);
                    let src = format!("let sim = import! sim\nlet d = import! p{}\nlet t = sim.tick \"x{}\"\n{{ v = d.v #Int+ {} #Int+ (t #Int- t) }}\n", dep, extra, extra);
                    ops.push(json!({ "op": "load", "name": format!("x{}", extra), "src": src, "imports": [dep] }));
                } else if roll < 75 {
                    // a value computed on another gluon thread (spawn_on) or on two threads at
                    // once (join) and moved back to this one
                    let mk = |rng: &mut Rng| {
                        let mut g = Gen::new(rng, 30);
                        g.allow_match = false;
                        g.max_loop = 8;
                        let t = g.data_ty(2);
                        g.expr(&t, 3)
                    };
                    let a = mk(rng);
                    let b = mk(rng);
                    let body = if rng.chance(1, 2) {
                        format!("io.flat_map (\\t -> io.flat_map (\\fut -> fut) (th.spawn_on t (io.flat_map (\\u -> io.wrap ({})) (io.wrap ())))) (th.new_thread ())", a)
                    } else {
                        format!("th.join (io.flat_map (\\u -> io.wrap ({})) (io.wrap ())) (io.flat_map (\\u -> io.wrap ({})) (io.wrap ()))", a, b)
                    };
                    let src = format!("{}let io = import! std.io.prim\nlet th = import! std.thread.prim\n{}\n", gen::PREAMBLE, body);
                    ops.push(json!({ "op": "burst", "src": src, "imports": [] }));
                } else if roll < 85 {
                    let ty = {
                        let mut g = Gen::new(rng, 4);
                        g.data_ty(2)
                    };
                    ops.push(json!({ "op": "burst", "src": gen::program(rng, &ty, 60, 5), "imports": [] }));
                } else if roll < 93 {
                    ops.push(json!({ "op": "collect" }));
                } else {
                    ops.push(json!({ "op": "global", "name": format!("p{}", rng.below(nmods)) }));
                }
            }
            threads.push(json!({ "gthread": if t == 0 && rng.chance(1, 2) { "root" } else { "child" }, "ops": ops }));
        }
        // import tasks of one importer evaluate module bodies on the importer's own gluon thread; run
        // in parallel they interleave on that thread's stack (recorded finding): most runs serialise
        // them so that everything else stays visible
        let parallel = rng.chance(1, 4);
        json!({
            "class": if parallel { "parallel-imports" } else { "serial-imports" },
            "prelude": false,
            "modules": modules,
            "threads": threads,
            "gc": GcPolicy::generate(rng).to_json(),
            "switch_rate": *rng.pick(&[20u32, 100, 300, 700]),
            "hook_every": *rng.pick(&[3u64, 11, 47, 211]),
        })
    }

    fn run(&self, w: &Value) -> Result<(), Violation> {
        let empty = Vec::new();
        let threads = w["threads"].as_array().unwrap_or(&empty);
        // ---- solo reference: every operation alone on a fresh VM
        sched::reset(0);
        run::set_gc(GcPolicy::Off, false);
        let mut expected: BTreeMap<String, String> = BTreeMap::new();
        for (t, th) in threads.iter().enumerate() {
            for (k, op) in th["ops"].as_array().unwrap_or(&empty).iter().enumerate() {
                let kind = op["op"].as_str().unwrap_or("");
                if kind == "collect" {
                    continue;
                }
                let id = format!("{}_{}", t, k);
                run::set_context(format!("solo reference of operation {}", id));
                let vm = build_vm(w)?;
                if kind == "global" {
                    // a global exists once somebody imported it: load it first
                    let name = op["name"].as_str().unwrap_or("p0");
                    let _ = exec::drive(vm.run_expr_async::<OpaqueValue<RootedThread, Hole>>("pre", &format!("let x = import! {}\n0\n", name)), 10_000_000, |_| {});
                }
                let out = perform(&vm, op, &id, false);
                expected.insert(id, out);
            }
        }
        run::with(|s| s.ticks.clear());

        // ---- concurrent phase
        gluon_vm::verif::reset_heap_ids();
        let vm = build_vm(w)?;
        run::with(|s| s.ticks.clear());
        sched::reset(w["switch_rate"].as_u64().unwrap_or(100) as u32);
        let parallel = w["class"].as_str() == Some("parallel-imports");
        sched::INLINE_SPAWN.store(!parallel, std::sync::atomic::Ordering::SeqCst);
        let tag = move |v: Violation| -> Violation {
            if parallel {
                Violation::new("parallel-import-tasks", format!("with the import tasks of one importer running in parallel: [{}] {}", v.oracle, v.detail))
            } else {
                v
            }
        };
        let hook_every = w["hook_every"].as_u64().unwrap_or(11).max(1);
        let results: Arc<Mutex<BTreeMap<String, String>>> = Arc::new(Mutex::new(BTreeMap::new()));
        let mut gthreads = Vec::new();
        for (t, th) in threads.iter().enumerate() {
            let gthread = if th["gthread"].as_str() == Some("root") {
                vm.clone()
            } else {
                vm.new_thread().map_err(|e| Violation::new("harness", e.to_string()))?
            };
            {
                let mut n = 0u64;
                let mut context = gthread.context();
                context.set_hook(Some(Box::new(move |_, _| {
                    n += 1;
                    if n % hook_every == 0 {
                        // a preemption in the middle of bytecode, the context lock is held
                        sched::yield_point("hook");
                    }
                    Poll::Ready(Ok(()))
                })));
                context.set_hook_mask(HookFlags::CALL_FLAG);
            }
            gthreads.push(gthread.clone());
            let ops: Vec<Value> = th["ops"].as_array().cloned().unwrap_or_default();
            let results = results.clone();
            sched::spawn(&format!("L{}", t), move || {
                for (k, op) in ops.iter().enumerate() {
                    let id = format!("{}_{}", t, k);
                    let out = perform(&gthread, op, &id, true);
                    results.lock().unwrap().insert(id, out);
                }
                drop(gthread);
            });
        }
        run::set_gc(GcPolicy::from_json(&w["gc"]), true);
        run::set_context("concurrent phase");
        let ok = sched::run_all();
        run::gc_active(false);
        if !ok {
            // harness limitation, see `sched::run_all`
            std::process::exit(98);
        }
        let summary = sched::summary();
        run::count("sched_steps", summary.steps);
        run::count("context_switches", summary.switches);
        run::count("logical_threads", summary.threads as u64);
        run::count("step_cap_hit", summary.capped as u64);
        for (site, n) in &summary.probe_failed {
            run::count(&format!("probe_failed@{}", site), *n);
        }
        run::count("probe_failed", summary.probe_failed.values().sum());
        // ---- oracles
        if let Some((name, msg)) = summary.panics.first() {
            return Err(tag(Violation::new("panic", format!("logical thread {} panicked: {}", name, msg))));
        }
        let results = results.lock().unwrap().clone();
        for (id, exp) in &expected {
            let got = results.get(id).cloned().unwrap_or_else(|| "MISSING".to_string());
            // a global only exists once somebody imported the module: both answers are right
            if got.starts_with("ERR global") && got.contains("is not defined") && exp.starts_with("GLOBAL") {
                continue;
            }
            if &got != exp {
                return Err(tag(Violation::new(
                    "differs-from-solo",
                    format!("operation {} gave `{}` when run concurrently but `{}` when run alone", id, clip(&got), clip(exp)),
                )));
            }
        }
        let ticks = run::with(|s| s.ticks.clone());
        for (m, n) in &ticks {
            if *n > 1 {
                return Err(tag(Violation::new(
                    "evaluated-twice",
                    format!("the body of module {} was evaluated {} times", m, n),
                )));
            }
        }
        for g in &gthreads {
            g.context().set_hook(None);
        }
        let walk = heap::walk(&vm);
        if let Some(&(from, owner, _)) = walk.freed_reached.first() {
            return Err(Violation::new(
                "reachable-freed",
                format!("at quiescence a freed object of heap {} is reachable from heap {}", owner, from),
            ));
        }
        if let Some(&(from, to, n)) = heap::ownership_violations(&walk).first() {
            return Err(Violation::new(
                "ownership",
                format!("at quiescence heap {} holds {} pointer(s) into heap {} which is not one of its ancestors", from, n, to),
            ));
        }
        // shared imports
        let mut import_count: BTreeMap<u64, u64> = BTreeMap::new();
        for th in threads {
            let mut mine = std::collections::BTreeSet::new();
            for op in th["ops"].as_array().unwrap_or(&empty) {
                for m in op["imports"].as_array().unwrap_or(&empty) {
                    mine.insert(m.as_u64().unwrap_or(0));
                }
            }
            for m in mine {
                *import_count.entry(m).or_insert(0) += 1;
            }
        }
        let shared = import_count.values().any(|n| *n >= 2);
        run::with(|s| {
            s.stats.nontrivial = summary.switches >= 10 && shared && !summary.capped;
            s.stats.trace_hash = summary.hash;
            s.stats.sample = Some(json!({
                "threads": threads.iter().map(|t| json!({"gthread": t["gthread"], "ops": t["ops"].as_array().map(|o| o.iter().map(|x| x["op"].clone()).collect::<Vec<_>>())})).collect::<Vec<_>>(),
                "steps": summary.steps, "switches": summary.switches, "logical_threads": summary.threads,
                "sites": summary.sites, "results": results,
            }));
        });
        drop(gthreads);
        drop(vm);
        Ok(())
    }
}

fn clip(s: &str) -> String {
    if s.len() > 300 {
        let mut e = 300;
        while !s.is_char_boundary(e) {
            e -= 1;
        }
        format!("{}…", &s[..e])
    } else {
        s.to_string()
    }
}
