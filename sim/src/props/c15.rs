//! C15 — modules: evaluated once, cycles rejected, reloads never stale (`modsim`)
use std::collections::{BTreeMap, BTreeSet};
use std::sync::atomic::{AtomicBool, Ordering};

use futures::task::Poll;
use gluon::{
    query::CompilationBase,
    vm::{
        api::{Hole, OpaqueValue},
        thread::{HookFlags, ThreadInternal},
    },
    RootedThread, ThreadExt,
};
use serde_json::{json, Value};

use crate::{
    engine::{Engine, EngineInfo},
    exec, externs,
    prng::Rng,
    render,
    run::{self, GcPolicy, Violation},
};

pub struct C15;

static HOOK_YIELDED: AtomicBool = AtomicBool::new(false);
/// Number of suspensions (hook returned Pending) in the current step
static HOOK_YIELDS: std::sync::atomic::AtomicU32 = std::sync::atomic::AtomicU32::new(0);

/// Largest number of `import!`s in one source among the expression and every module it reaches
fn max_import_fanout(mods: &[usize], sources: &BTreeMap<usize, String>) -> usize {
    let imports_of = |m: usize| -> Vec<usize> {
        sources
            .get(&m)
            .map(|s| {
                s.match_indices("import! m")
                    .filter_map(|(i, pat)| s[i + pat.len()..].chars().next().and_then(|c| c.to_digit(10)).map(|d| d as usize))
                    .collect()
            })
            .unwrap_or_default()
    };
    let mut best = mods.len();
    let mut seen = std::collections::BTreeSet::new();
    let mut todo: Vec<usize> = mods.to_vec();
    while let Some(m) = todo.pop() {
        if !seen.insert(m) {
            continue;
        }
        let deps = imports_of(m);
        best = best.max(deps.len());
        todo.extend(deps);
    }
    best
}

/// Source of module `i`. `deps` = (module index, "int"|"str": how its `v` is used)
fn module_source(i: usize, ver: u64, base: i64, kind: &str, state: &str, deps: &[(usize, String)]) -> String {
    let mut s = String::from("let sim = import! sim\nlet string = import! std.string.prim\n");
    for (d, _) in deps {
        s.push_str(&format!("let d{} = import! m{}\n", d, d));
    }
    if state == "parse" {
        s.push_str("let x = = 1\n");
    }
    s.push_str(&format!("let t = sim.tick \"@TAG@m{}#{}\"\n", i, ver));
    let mut sum = format!("({} #Int+ (t #Int- t))", base);
    for (d, k) in deps {
        if k == "int" {
            sum = format!("({} #Int+ d{}.v)", sum, d);
        } else {
            sum = format!("({} #Int+ (string.len d{}.v))", sum, d);
        }
    }
    let v = match (kind, state) {
        (_, "type") => format!("({} #Int+ \"not an int\")", sum),
        (_, "fail") => format!("(sim.fail \"m{} failed\" #Int+ {})", i, sum),
        ("str", _) => format!("(if {} #Int< 0 then \"neg\" else \"{}\")", sum, "s".repeat((base.unsigned_abs() % 7 + 1) as usize)),
        _ => sum,
    };
    s.push_str(&format!("{{ v = {}, n = \"m{}\" }}\n", v, i));
    s
}

fn eval_source(mods: &[usize]) -> String {
    let mut s = String::new();
    for m in mods {
        s.push_str(&format!("let a{} = import! m{}\n", m, m));
    }
    let fields: Vec<String> = mods.iter().map(|m| format!("r{} = a{}.v", m, m)).collect();
    if fields.is_empty() {
        s.push_str("0\n");
    } else {
        s.push_str(&format!("{{ {} }}\n", fields.join(", ")));
    }
    s
}

fn module_names(msg: &str) -> BTreeSet<String> {
    // m<digits> tokens
    let mut out = BTreeSet::new();
    let b = msg.as_bytes();
    let mut i = 0;
    while i < b.len() {
        if b[i] == b'm' && (i == 0 || !b[i - 1].is_ascii_alphanumeric()) {
            let mut j = i + 1;
            while j < b.len() && b[j].is_ascii_digit() {
                j += 1;
            }
            if j > i + 1 && (j == b.len() || !b[j].is_ascii_alphanumeric()) {
                out.insert(msg[i..j].to_string());
            }
            i = j;
        } else {
            i += 1;
        }
    }
    out
}

fn classify(e: &gluon::Error) -> String {
    let msg = e.to_string();
    let kind = if msg.contains("cyclic dependency") {
        "cyclic"
    } else {
        match e {
            gluon::Error::VM(_) => "runtime",
            gluon::Error::Parse(_) => "parse",
            gluon::Error::Typecheck(_) => "typecheck",
            gluon::Error::Macro(_) => "macro",
            gluon::Error::Multiple(_) => {
                if msg.contains("Unexpected token") || msg.contains("Expected one of") {
                    "parse"
                } else if msg.contains("Expected the following types") || msg.contains("Types do not match") {
                    "typecheck"
                } else {
                    "multiple"
                }
            }
            _ => "other",
        }
    };
    format!("ERR {}", kind)
}

/// The chains `a -> b -> a` of every reported cyclic dependency
fn reported_cycles(e: &gluon::Error) -> Vec<Vec<String>> {
    let msg = e.to_string();
    let mut out = Vec::new();
    for line in msg.lines() {
        if let Some(pos) = line.find("cyclic dependency: `") {
            let rest = &line[pos + "cyclic dependency: `".len()..];
            let chain = rest.trim_end_matches('`');
            let names: Vec<String> = chain.split(" -> ").map(|s| s.trim().trim_matches('`').to_string()).collect();
            if names.iter().all(|n| !module_names(n).is_empty()) {
                out.push(names);
            }
        }
    }
    out
}

fn setup(tag: &str, sources: &BTreeMap<usize, String>) -> Result<RootedThread, Violation> {
    let vm = gluon::new_vm();
    vm.get_database_mut().set_implicit_prelude(false);
    externs::install(&vm);
    for (i, src) in sources {
        vm.get_database_mut()
            .add_module(format!("m{}", i), &src.replace("@TAG@", tag));
    }
    Ok(vm)
}

fn run_eval(vm: &RootedThread, name: &str, src: &str, inject: Option<u32>, cycles: &mut Vec<Vec<String>>) -> (String, bool) {
    let fut = vm.run_expr_async::<OpaqueValue<RootedThread, Hole>>(name, src);
    let mut yields = 0u32;
    let mut cancelled = false;
    let out = exec::drive_with(fut, 100_000, |_| {
        if !HOOK_YIELDED.swap(false, Ordering::SeqCst) {
            return exec::Next::Default;
        }
        yields += 1;
        match inject {
            Some(at) if yields == at => {
                cancelled = true;
                exec::Next::Cancel
            }
            _ => exec::Next::Poll,
        }
    });
    let s = match out {
        exec::Outcome::Ready(Ok((v, t)), _) => format!("OK {} : {}", render::render(v.get_variant()), t),
        exec::Outcome::Ready(Err(e), _) => {
            cycles.extend(reported_cycles(&e));
            classify(&e)
        }
        exec::Outcome::Cancelled => "CANCELLED".to_string(),
        exec::Outcome::Stuck(p) => format!("HANG after {} polls", p),
        exec::Outcome::PollCap => "POLL-CAP".to_string(),
    };
    (s, cancelled)
}

fn run_typecheck(vm: &RootedThread, name: &str, src: &str) -> String {
    let fut = vm.typecheck_str_async(name, src, None);
    match exec::drive(fut, 100_000, |_| {}) {
        exec::Outcome::Ready(Ok((_, t)), _) => format!("TYPE {}", t),
        exec::Outcome::Ready(Err(e), _) => classify(&e),
        exec::Outcome::Stuck(p) => format!("HANG after {} polls", p),
        _ => "POLL-CAP".to_string(),
    }
}

impl Engine for C15 {
    fn id(&self) -> &'static str {
        "C15"
    }

    fn info(&self) -> EngineInfo {
        EngineInfo {
            rule: "one run = one long-lived VM and a history of 4-14 steps over up to 6 inline modules m0..m5 (each `{ v, n }`, `v` computed from a constant and the `v` of its imports, body ticking the harness counter with (module, version)): set/replace a module source (change value, change the type of `v`, add/remove import edges incl. cycles of length 1-4, introduce/fix a type error, a parse error or a failing body) through add_module or load_script; evaluate an expression importing a subset; typecheck it; evaluate with the evaluation future cancelled at the k-th debug-hook yield inside a module body (fault), then continue. After every evaluation the outcome (rendered value and type, or error class; for cycles the set of modules on the reported cycle) must equal that of a brand-new VM given the current sources; between two edits no (module, version) body is evaluated more than once; a pending evaluation with no wake-up is a hang. Non-trivial = at least one edit after a first evaluation and a later evaluation; distinct = distinct workload hash.",
            real: vec!["CompilerDatabase/salsa queries (module_text, typechecked_source_module, compiled_module, global_inner, import), invalidation in add_module, cycle recovery, import! macro, module evaluation and promotion to globals"],
            stubbed: vec!["executor (simulator polls)", "module sources are inline strings (no file system)"],
            not_exercised: vec!["file based imports", "concurrent edits (C14 covers concurrent imports without edits)"],
            fault_kinds: vec!["fault_cancel (evaluation future dropped inside a module body)", "fail_body (module body fails at run time)", "type_error_in_dependency", "parse_error_in_dependency", "cycle", "gc (forced collection)"],
            assumptions: vec![
                "error message text is not compared (C16), only the error class and, for cycles, the set of module names",
                "the step that is cancelled is not compared; every later step is",
            ],
            shrink: vec!["/steps"],
            quick: (15000, 150),
            thorough: (80000, 1100),
        }
    }

    fn generate(&self, rng: &mut Rng, _tier: &str) -> Value {
        let nmods = 2 + rng.below(5);
        // current model: kind and deps per module (for generating consistent dependents)
        let mut kinds: Vec<String> = vec!["int".to_string(); nmods];
        let mut defined: Vec<bool> = vec![false; nmods];
        let mut versions: Vec<u64> = vec![0; nmods];
        let mut steps = Vec::new();
        let mut late: Vec<Value> = Vec::new();
        // initial definitions: a DAG (module i imports only j > i)
        for i in (0..nmods).rev() {
            let mut deps = Vec::new();
            for j in i + 1..nmods {
                if rng.chance(1, 3) {
                    deps.push((j, kinds[j].clone()));
                }
            }
            versions[i] += 1;
            defined[i] = true;
            let step = json!({ "op": "set", "m": i, "ver": versions[i], "base": rng.range(0, 50), "kind": "int", "state": "ok", "deps": deps, "how": "add" });
            // some modules are only defined later in the history (importers evaluated before that
            // see a missing module, afterwards they must see it)
            if rng.chance(1, 6) {
                late.push(step);
            } else {
                steps.push(step);
            }
        }
        let n = 3 + rng.below(10);
        for _ in 0..n {
            let roll = rng.below(100);
            if roll < 45 {
                // evaluate
                let mut mods: Vec<usize> = (0..nmods).filter(|_| rng.chance(1, 2)).collect();
                if mods.is_empty() {
                    mods.push(rng.below(nmods));
                }
                let inject = if rng.chance(1, 8) { Some(1 + rng.below(4)) } else { None };
                let how = if rng.chance(1, 6) { "typecheck" } else { "eval" };
                steps.push(json!({ "op": how, "mods": mods, "inject": inject }));
            } else if roll < 50 {
                steps.push(json!({ "op": "collect" }));
            } else if roll < 58 {
                // register the unchanged source of a module again: not a change
                steps.push(json!({ "op": "touch", "m": rng.below(nmods), "how": if rng.chance(1, 2) { "add" } else { "load" } }));
            } else if roll < 64 && !late.is_empty() {
                let k = rng.below(late.len());
                steps.push(late.remove(k));
            } else {
                // edit one module
                let i = rng.below(nmods);
                versions[i] += 1;
                let kind = if rng.chance(1, 4) { "str" } else { "int" };
                let state = match rng.below(12) {
                    0 => "type",
                    1 => "parse",
                    2 => "fail",
                    _ => "ok",
                };
                let mut deps = Vec::new();
                for j in 0..nmods {
                    // any edge, including backwards ones (cycles) and self imports
                    let p = if j > i { 3 } else { 8 };
                    if rng.chance(1, p) {
                        deps.push((j, kinds[j].clone()));
                    }
                }
                kinds[i] = kind.to_string();
                let how = if rng.chance(1, 3) { "load" } else { "add" };
                steps.push(json!({ "op": "set", "m": i, "ver": versions[i], "base": rng.range(0, 50), "kind": kind, "state": state, "deps": deps, "how": how }));
            }
        }
        // always end with an evaluation of everything
        steps.push(json!({ "op": "eval", "mods": (0..nmods).collect::<Vec<_>>(), "inject": Value::Null }));
        json!({ "gc": GcPolicy::generate(rng).to_json(), "hook_rate": *rng.pick(&[16u32, 64, 256]), "steps": steps })
    }

    fn run(&self, w: &Value) -> Result<(), Violation> {
        let mut sources: BTreeMap<usize, String> = BTreeMap::new();
        let vm = setup("L|", &sources)?;
        let hook_rate = w["hook_rate"].as_u64().unwrap_or(64) as u32;
        let install_hook = |thread: &RootedThread| {
            let mut context = thread.context();
            context.set_hook(Some(Box::new(move |_, _| {
                let y = run::try_with(|s| {
                    if s.context.starts_with("inject") {
                        s.tape.flip("hook", hook_rate, 1024)
                    } else {
                        false
                    }
                })
                .unwrap_or(false);
                if y {
                    HOOK_YIELDS.fetch_add(1, Ordering::SeqCst);
                    HOOK_YIELDED.store(true, Ordering::SeqCst);
                    Poll::Pending
                } else {
                    Poll::Ready(Ok(()))
                }
            })));
            context.set_hook_mask(HookFlags::CALL_FLAG);
        };
        install_hook(&vm);
        // the thread evaluations run on: a cancelled evaluation leaves its frames on the thread
        // (recorded finding of C06), the history then continues on a new thread of the same VM so
        // that what is checked afterwards is the state of the module database
        let mut cur = vm.clone();
        run::set_gc(GcPolicy::from_json(&w["gc"]), false);
        let empty = Vec::new();
        let steps = w["steps"].as_array().unwrap_or(&empty);
        let mut epoch_ticks: BTreeMap<String, u64> = BTreeMap::new();
        // current import graph of the model
        let mut graph: BTreeMap<String, BTreeSet<String>> = BTreeMap::new();
        let mut edits_after_eval = 0;
        let mut evals = 0;
        let mut evals_after_edit = 0;
        let mut log = Vec::new();
        for (i, step) in steps.iter().enumerate() {
            let op = step["op"].as_str().unwrap_or("");
            match op {
                "set" => {
                    let m = step["m"].as_u64().unwrap_or(0) as usize;
                    let deps: Vec<(usize, String)> = step["deps"]
                        .as_array()
                        .map(|d| {
                            d.iter()
                                .map(|x| (x[0].as_u64().unwrap_or(0) as usize, x[1].as_str().unwrap_or("int").to_string()))
                                .collect()
                        })
                        .unwrap_or_default();
                    let state = step["state"].as_str().unwrap_or("ok");
                    let src = module_source(
                        m,
                        step["ver"].as_u64().unwrap_or(0),
                        step["base"].as_i64().unwrap_or(0),
                        step["kind"].as_str().unwrap_or("int"),
                        state,
                        &deps,
                    );
                    match state {
                        "type" => run::count("type_error_in_dependency", 1),
                        "parse" => run::count("parse_error_in_dependency", 1),
                        "fail" => run::count("fail_body", 1),
                        _ => {}
                    }
                    if deps.iter().any(|(d, _)| *d <= m) {
                        run::count("cycle", 1);
                    }
                    sources.insert(m, src.clone());
                    graph.insert(format!("m{}", m), deps.iter().map(|(d, _)| format!("m{}", d)).collect());
                    // a new epoch starts: remember the counters
                    epoch_ticks = run::with(|s| s.ticks.clone());
                    if evals > 0 {
                        edits_after_eval += 1;
                    }
                    run::set_context(format!("plain step {} set m{}", i, m));
                    let text = src.replace("@TAG@", "L|");
                    if step["how"].as_str() == Some("load") {
                        run::gc_active(true);
                        let mname = format!("m{}", m);
                        // (on the current thread: after a cancellation the old thread's stack is dirty)
                        let fut = cur.load_script_async(&mname, &text);
                        let r = exec::drive(fut, 100_000, |_| {});
                        run::gc_active(false);
                        let s = match r {
                            exec::Outcome::Ready(Ok(()), _) => "loaded".to_string(),
                            exec::Outcome::Ready(Err(e), _) => classify(&e),
                            exec::Outcome::Stuck(p) => {
                                return Err(Violation::new("hang", format!("load_script of m{} is pending with nobody to wake it (after {} polls)", m, p)))
                            }
                            _ => "?".to_string(),
                        };
                        log.push(format!("load m{}: {}", m, s));
                    } else {
                        vm.get_database_mut().add_module(format!("m{}", m), &text);
                        log.push(format!("add m{} v{}", m, step["ver"]));
                    }
                }
                "touch" => {
                    let m = step["m"].as_u64().unwrap_or(0) as usize;
                    if let Some(src) = sources.get(&m) {
                        run::count("touch_unchanged", 1);
                        run::set_context(format!("plain step {} touch m{}", i, m));
                        let text = src.replace("@TAG@", "L|");
                        if step["how"].as_str() == Some("load") {
                            let mname = format!("m{}", m);
                            let _ = exec::drive(cur.load_script_async(&mname, &text), 100_000, |_| {});
                        } else {
                            vm.get_database_mut().add_module(format!("m{}", m), &text);
                        }
                        log.push(format!("touch m{}", m));
                    }
                }
                "collect" => vm.collect(),
                "eval" | "typecheck" => {
                    let mods: Vec<usize> = step["mods"]
                        .as_array()
                        .map(|a| a.iter().map(|x| x.as_u64().unwrap_or(0) as usize).filter(|m| sources.contains_key(m)).collect())
                        .unwrap_or_default();
                    let src = eval_source(&mods);
                    let inject = step["inject"].as_u64().map(|x| x as u32);
                    // reference: a brand new VM with the current sources
                    run::set_context(format!("reference step {}", i));
                    let expected = {
                        let fresh = setup("F|", &sources)?;
                        if op == "eval" {
                            run_eval(&fresh, &format!("e{}", i), &src, None, &mut Vec::new()).0
                        } else {
                            run_typecheck(&fresh, &format!("e{}", i), &src)
                        }
                    };
                    run::set_context(format!("{} step {} {}", if inject.is_some() { "inject" } else { "plain" }, i, op));
                    run::gc_active(true);
                    let mut cycles = Vec::new();
                    HOOK_YIELDS.store(0, Ordering::SeqCst);
                    // recorded finding (same mechanism as the C14 finding on parallel import tasks):
                    // the imports of one source are evaluated concurrently on the importing thread,
                    // a suspension inside one module body lets the next one run on the same stack
                    let interleaving_possible = inject.is_some() && max_import_fanout(&mods, &sources) >= 2;
                    let (actual, cancelled) = if op == "eval" {
                        let name = format!("e{}", i);
                        if interleaving_possible {
                            match std::panic::catch_unwind(std::panic::AssertUnwindSafe(|| run_eval(&cur, &name, &src, inject, &mut cycles))) {
                                Ok(r) => r,
                                Err(p) => {
                                    let msg = p.downcast_ref::<String>().cloned().or_else(|| p.downcast_ref::<&str>().map(|s| s.to_string())).unwrap_or_default();
                                    if HOOK_YIELDS.load(Ordering::SeqCst) > 0 && !msg.contains("forget") {
                                        return Err(Violation::new(
                                            "suspended-import-interleaving",
                                            format!("a module body was suspended while the source importing it has another import: the other module body ran on the same thread's stack, then: panic `{}`", clip(&msg)),
                                        ));
                                    }
                                    std::panic::resume_unwind(p);
                                }
                            }
                        } else {
                            run_eval(&cur, &name, &src, inject, &mut cycles)
                        }
                    } else if interleaving_possible {
                        // (typechecking an expression evaluates the modules it imports)
                        let name = format!("e{}", i);
                        match std::panic::catch_unwind(std::panic::AssertUnwindSafe(|| run_typecheck(&cur, &name, &src))) {
                            Ok(r) => (r, false),
                            Err(p) => {
                                let msg = p.downcast_ref::<String>().cloned().or_else(|| p.downcast_ref::<&str>().map(|s| s.to_string())).unwrap_or_default();
                                if HOOK_YIELDS.load(Ordering::SeqCst) > 0 && !msg.contains("forget") {
                                    return Err(Violation::new(
                                        "suspended-import-interleaving",
                                        format!("a module body was suspended while the source importing it has another import: the other module body ran on the same thread's stack, then: panic `{}`", clip(&msg)),
                                    ));
                                }
                                std::panic::resume_unwind(p);
                            }
                        }
                    } else {
                        (run_typecheck(&cur, &format!("e{}", i), &src), false)
                    };
                    run::gc_active(false);
                    let suspended_with_siblings = interleaving_possible && HOOK_YIELDS.load(Ordering::SeqCst) > 0;
                    evals += 1;
                    if edits_after_eval > 0 {
                        evals_after_edit += 1;
                    }
                    log.push(format!("{} {:?}: {}", op, mods, clip(&actual)));
                    if std::env::var("SIM_DEBUG").is_ok() {
                        eprintln!("step {} {} {:?} inject {:?}\n  expected {}\n  actual   {}", i, op, mods, inject, clip(&expected), clip(&actual));
                    }
                    if cancelled {
                        run::count("fault_cancel", 1);
                        cur.context().set_hook(None);
                        cur = vm
                            .new_thread()
                            .map_err(|e| Violation::new("harness", format!("new_thread: {}", e)))?;
                        install_hook(&cur);
                    } else {
                        if actual.starts_with("HANG") || actual == "POLL-CAP" {
                            return Err(Violation::new("hang", format!("step {} ({} of {:?}): {}", i, op, mods, actual)));
                        }
                        if actual != expected && suspended_with_siblings {
                            return Err(Violation::new(
                                "suspended-import-interleaving",
                                format!(
                                    "a module body was suspended while the source importing it has another import: the other module body ran on the same thread's stack, then: step {} ({} of {:?}) gave `{}` where a fresh VM gives `{}`",
                                    i, op, mods, clip(&actual), clip(&expected)
                                ),
                            ));
                        }
                        if actual != expected {
                            return Err(Violation::new(
                                "stale-or-different",
                                format!(
                                    "step {} ({} of {:?}) on the long-lived VM gave `{}` but a fresh VM with the current sources gives `{}`",
                                    i, op, mods, clip(&actual), clip(&expected)
                                ),
                            ));
                        }
                    }
                    // every reported cycle must exist in the current sources (never a stale one)
                    if !cancelled {
                        for chain in &cycles {
                            // the message may omit members of the cycle (participants that were
                            // already memoised): require that all named modules lie on one cycle
                            // of the current graph, i.e. each reaches each other
                            let reach = |from: &String, to: &String| -> bool {
                                let mut seen = BTreeSet::new();
                                let mut stack: Vec<String> = graph.get(from).map(|d| d.iter().cloned().collect()).unwrap_or_default();
                                while let Some(n) = stack.pop() {
                                    if &n == to {
                                        return true;
                                    }
                                    if seen.insert(n.clone()) {
                                        if let Some(d) = graph.get(&n) {
                                            stack.extend(d.iter().cloned());
                                        }
                                    }
                                }
                                false
                            };
                            let real = chain.len() >= 2
                                && chain.first() == chain.last()
                                && chain.windows(2).all(|p| reach(&p[0], &p[1]));
                            if !real {
                                return Err(Violation::new(
                                    "cycle-not-in-sources",
                                    format!("step {}: the reported cyclic dependency `{}` does not lie on a cycle of the current import graph {:?}", i, chain.join(" -> "), graph),
                                ));
                            }
                        }
                    }
                    // at most once per epoch (long-lived VM only)
                    let now = run::with(|s| s.ticks.clone());
                    for (k, n) in &now {
                        if !k.starts_with("L|") {
                            continue;
                        }
                        let before = epoch_ticks.get(k).copied().unwrap_or(0);
                        if n - before > 1 {
                            return Err(Violation::new(
                                "evaluated-twice",
                                format!("the body of {} ran {} times since the last source change (step {})", &k[2..], n - before, i),
                            ));
                        }
                    }
                }
                _ => {}
            }
        }
        run::with(|s| {
            s.stats.nontrivial = evals_after_edit > 0;
            s.stats.sample = Some(json!({ "log": log }));
        });
        cur.context().set_hook(None);
        vm.context().set_hook(None);
        drop(cur);
        drop(vm);
        Ok(())
    }
}

fn clip(s: &str) -> String {
    if s.len() > 300 {
        let mut e = 300;
        while !s.is_char_boundary(e) {
            e -= 1;
        }
        format!("{}…", &s[..e])
    } else {
        s.to_string()
    }
}
