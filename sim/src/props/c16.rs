//! C16 — compilation and evaluation are deterministic (`detsim`)
//!
//! The "fault" here is the environment's history: what was compiled before in the same VM, in
//! which order, on which thread, under which collection schedule, at which heap addresses, in
//! which process.
use std::process::{Command, Stdio};

use gluon::{
    query::CompilationBase,
    vm::api::{Hole, OpaqueValue},
    RootedThread, ThreadExt,
};
use serde_json::{json, Value};

use crate::{
    engine::{Engine, EngineInfo},
    externs,
    gen::{self, Gen},
    prng::Rng,
    props::c06::PRIM_PREAMBLE,
    render,
    run::{self, GcPolicy, Violation},
};

pub struct C16;

fn new_vm(prelude: bool) -> Result<RootedThread, Violation> {
    let vm = gluon::new_vm();
    vm.get_database_mut().set_implicit_prelude(prelude);
    externs::install(&vm);
    vm.load_script("simtypes", gen::TYPES_MODULE)
        .map_err(|e| Violation::new("harness", format!("simtypes: {}", e)))?;
    Ok(vm)
}

fn load_subject_modules(vm: &RootedThread, w: &Value) {
    if let Some(ms) = w["modules"].as_array() {
        for (i, m) in ms.iter().enumerate() {
            vm.get_database_mut()
                .add_module(format!("sm{}", i), m.as_str().unwrap_or("0"));
        }
    }
}

pub fn observe(vm: &RootedThread, src: &str) -> String {
    match vm.run_expr::<OpaqueValue<RootedThread, Hole>>("subject", src) {
        Ok((v, t)) => format!("OK {}\nTYPE {}", render::render(v.get_variant()), t),
        Err(e) => format!("ERR {}", e.emit_string().unwrap_or_else(|_| e.to_string())),
    }
}

/// Entry point of `sim obs <file>`: observation in a fresh process
pub fn observe_in_this_process(w: &Value) -> String {
    match new_vm(w["prelude"].as_bool().unwrap_or(false)) {
        Ok(vm) => {
            load_subject_modules(&vm, w);
            observe(&vm, w["subject"].as_str().unwrap_or("0"))
        }
        Err(v) => format!("SETUP {}", v.detail),
    }
}

fn mutate(rng: &mut Rng, src: &str) -> String {
    // turn a well typed program into an ill typed one (diagnostics are part of the observation)
    let candidates: Vec<(&str, &str)> = vec![
        (" #Int+ ", " #Float+ "),
        (" #Int< ", " #Float< "),
        ("string.append ", "array.append "),
        ("array.len ", "string.len "),
        ("\"gluon\"", "17"),
        ("(Leaf ", "(Node "),
        (" 1 ", " undefined_variable_xyz "),
        (" in ", " in in "),
    ];
    let start = rng.below(candidates.len());
    for k in 0..candidates.len() {
        let (a, b) = candidates[(start + k) % candidates.len()];
        if let Some(pos) = src.find(a) {
            // mutate a random occurrence
            let occ: Vec<usize> = src.match_indices(a).map(|m| m.0).collect();
            let p = occ[rng.below(occ.len())];
            let _ = pos;
            return format!("{}{}{}", &src[..p], b, &src[p + a.len()..]);
        }
    }
    format!("{} #Int+ \"x\"\n", src.trim_end())
}

/// A program whose meaning and diagnostics are decided by implicit-argument resolution: implicit
/// bindings with random names in random order, instances derived from instances, queries that
/// resolve to exactly one candidate (value), to several (ambiguity error listing the candidates)
/// or to none
fn implicit_subject(rng: &mut Rng) -> String {
    let syll = ["ka", "zo", "mi", "tu", "re", "xa", "li", "po", "ne", "wu"];
    let mut names: Vec<String> = Vec::new();
    while names.len() < 7 {
        let n = format!("{}{}{}", rng.pick(&syll), rng.pick(&syll), rng.below(10));
        if !names.contains(&n) {
            names.push(n);
        }
    }
    let mut s = String::from("#[implicit]\ntype T0 = | T0 Int\n#[implicit]\ntype T1 a = | T1 a\n");
    let nb = rng.below(6);
    for k in 0..nb {
        let name = &names[k];
        match rng.below(4) {
            0 => s.push_str(&format!("let {} : T0 = T0 {}\n", name, rng.below(100))),
            1 => s.push_str(&format!("let {} : T1 Int = T1 {}\n", name, rng.below(100))),
            2 => s.push_str(&format!("let {} : T1 String = T1 \"s{}\"\n", name, rng.below(100))),
            _ => s.push_str(&format!("let {} : T1 Float = T1 {}.5\n", name, rng.below(100))),
        }
    }
    if rng.chance(1, 2) {
        s.push_str(&format!("let {} ?x : [T1 a] -> T1 (Array a) =\n    match x with\n    | T1 y -> T1 [y]\n", names[6]));
    }
    s.push_str("let get0 ?x u : [T0] -> () -> T0 = x\nlet get1 ?x u : [T1 a] -> () -> T1 a = x\n");
    let nq = 1 + rng.below(3);
    let mut fields = Vec::new();
    for q in 0..nq {
        match rng.below(6) {
            0 => {
                s.push_str(&format!("let v{} = get0 ()\nlet r{} =\n    match v{} with\n    | T0 i -> i\n", q, q, q));
                fields.push(format!("r{}", q));
            }
            1 => {
                s.push_str(&format!("let v{} : T1 Int = get1 ()\nlet r{} =\n    match v{} with\n    | T1 i -> i\n", q, q, q));
                fields.push(format!("r{}", q));
            }
            2 => {
                s.push_str(&format!("let v{} : T1 String = get1 ()\nlet r{} =\n    match v{} with\n    | T1 i -> i\n", q, q, q));
                fields.push(format!("r{}", q));
            }
            3 => {
                s.push_str(&format!("let v{} : T1 (Array Int) = get1 ()\nlet r{} =\n    match v{} with\n    | T1 i -> i\n", q, q, q));
                fields.push(format!("r{}", q));
            }
            4 => {
                s.push_str(&format!("let v{} : T1 (Array (Array Float)) = get1 ()\nlet r{} =\n    match v{} with\n    | T1 i -> i\n", q, q, q));
                fields.push(format!("r{}", q));
            }
            _ => {
                // the element type is left open
                s.push_str(&format!("let v{} = get1 ()\n", q));
            }
        }
    }
    if fields.is_empty() {
        s.push_str("1\n");
    } else {
        s.push_str(&format!("{{ {} }}\n", fields.join(", ")));
    }
    s
}

/// An ill typed program whose diagnostics have to *choose* what to show: a projection of (or a
/// match on) a field that a wide record does not have, a record literal missing fields of the
/// expected type, an application with too many arguments on a wide record ... (the message lists
/// "similar" fields, elides the rest, and prints the record type several times)
fn wide_record_subject(rng: &mut Rng) -> String {
    let pool = ["alpha", "beta", "gamma", "delta", "epsilon", "zeta", "eta", "theta", "iota", "kappa", "lambda", "mu", "nu", "xi", "omicron", "pi", "rho", "sigma", "tau", "upsilon"];
    let n = 4 + rng.below(7);
    let mut names: Vec<&str> = Vec::new();
    while names.len() < n {
        let c = *rng.pick(&pool);
        if !names.contains(&c) {
            names.push(c);
        }
    }
    let value = |rng: &mut Rng, k: usize| match rng.below(4) {
        0 => format!("{}", k),
        1 => format!("\"s{}\"", k),
        2 => format!("{}.5", k),
        _ => format!("[{}]", k),
    };
    let fields: Vec<String> = names.iter().enumerate().map(|(k, f)| format!("{} = {}", f, value(rng, k))).collect();
    let missing = match rng.below(3) {
        0 => "zzz".to_string(),
        1 => format!("{}x", names[rng.below(n)]),
        _ => "q".to_string(),
    };
    let record = format!("{{ {} }}", fields.join(", "));
    match rng.below(4) {
        0 => format!("let r = {}\nr.{}\n", record, missing),
        1 => format!("let r = {}\nlet {{ {} }} = r\n{}\n", record, missing, missing),
        2 => format!("let f x : {{ {} : Int, {} : Int }} -> Int = x.{}\nf {}\n", missing, names[0], missing, record),
        _ => format!("let r = {}\nmatch r with\n| {{ {}, {} }} -> 1\n", record, names[0], missing),
    }
}

fn history_item(rng: &mut Rng, i: usize) -> Value {
    let ty = {
        let mut g = Gen::new(rng, 4);
        g.any_ty(2)
    };
    let prog = gen::program(rng, &ty, 40, 4);
    match rng.below(6) {
        5 => json!({ "kind": "expr", "name": format!("h{}", i), "src": implicit_subject(rng) }),
        0 => json!({ "kind": "module", "name": format!("hm{}", i), "src": prog }),
        1 => json!({ "kind": "bad", "name": format!("h{}", i), "src": mutate(rng, &prog) }),
        2 => json!({ "kind": "prim", "name": format!("h{}", i), "src": format!("{}(prim.error \"boom {}\")\n", PRIM_PREAMBLE, i) }),
        _ => json!({ "kind": "expr", "name": format!("h{}", i), "src": prog }),
    }
}

fn run_history(vm: &RootedThread, items: &[&Value]) {
    for it in items {
        let name = it["name"].as_str().unwrap_or("h");
        let src = it["src"].as_str().unwrap_or("0");
        if it["kind"].as_str() == Some("module") {
            let _ = vm.load_script(name, src);
        } else {
            let _ = vm.run_expr::<OpaqueValue<RootedThread, Hole>>(name, src);
        }
    }
}

impl Engine for C16 {
    fn id(&self) -> &'static str {
        "C16"
    }

    fn info(&self) -> EngineInfo {
        EngineInfo {
            rule: "one run = a generated subject (well typed program, or an ill typed / unparsable mutant of one, optionally importing 1-2 generated inline modules; in 1 of 5 runs a program decided by implicit-argument resolution: implicit bindings with random names in random order, derived instances, queries resolving to one candidate, several (ambiguity diagnostics listing the candidates) or none; in 1 of 8 an ill typed use of a wide record (4-10 fields with random names: missing field in a projection, pattern, expected type) whose diagnostics list similar fields and elide the rest) whose observation = (rendered value, type text, Error::emit_string text) is taken (a) on a fresh VM, (b) on a VM that first executed a generated history of 0-20 unrelated items (expressions, loaded modules, ill typed programs, failing programs; disjoint names), (c) after the same history in a tape-chosen permutation, (d) on a second fresh VM of the same process, (e) on a child thread, (f) under a forced collection schedule, (g) after seeded heap padding (shifts every address), (i) twice on a VM built with a task spawner whose import tasks are polled by the simulator in tape-chosen order (two completion orders), (h) in 1 of 6 runs in a freshly spawned process (new hasher keys, new address space). All observations must be byte-identical. Non-trivial = the history had at least 3 items or the subject produced diagnostics; distinct = distinct workload hash.",
            real: vec!["symbol interning, type variable naming in rendered types and diagnostics, salsa memo tables, code map offsets, Fnv/ordered maps in the compiler, VM evaluation, Error::emit_string rendering"],
            stubbed: vec!["unrelated earlier work = generated history", "address perturbation = seeded padding allocations"],
            not_exercised: vec!["std.random, IO", "different machines / Rust versions"],
            fault_kinds: vec!["history (items executed before the subject)", "permute", "second_vm", "child_thread", "gc (forced collection)", "padding", "fresh_process", "task_order (import tasks of a spawner VM polled in tape order)", "task (which pollable task runs next)"],
            assumptions: vec![
                "variations (b)-(g) are fully controlled by the decision tape and replay exactly; a difference seen only across processes (h) can only be raised if two real outputs differ, but depends on process-level randomness (hasher keys, ASLR) that the simulator cannot seed: its replay is re-checked over 8 fresh processes",
            ],
            shrink: vec!["/history"],
            quick: (6000, 150),
            thorough: (50000, 1100),
        }
    }

    fn generate(&self, rng: &mut Rng, _tier: &str) -> Value {
        let nmods = *rng.pick(&[0usize, 0, 1, 2]);
        let mut modules = Vec::new();
        let mut env = Vec::new();
        let mut imports = String::new();
        for i in 0..nmods {
            let ty = {
                let mut g = Gen::new(rng, 4);
                g.any_ty(2)
            };
            let mut src = gen::program(rng, &ty, 40, 4);
            if rng.chance(1, 3) {
                src = mutate(rng, &src);
            }
            modules.push(json!(src));
            env.push((format!("sm{}", i), ty));
            imports.push_str(&format!("let sm{} = import! sm{}\n", i, i));
        }
        let ty = {
            let mut g = Gen::new(rng, 4);
            g.any_ty(2)
        };
        let (hoisted, body) = {
            let mut g = Gen::new(rng, 60).with_env(env);
            let b = g.expr(&ty, 5);
            (g.hoisted.concat(), b)
        };
        let mut subject = format!("{}{}{}{}\n", gen::PREAMBLE, imports, hoisted, body);
        let kind = rng.below(3);
        if kind == 1 {
            subject = mutate(rng, &subject);
        } else if kind == 2 {
            let once = mutate(rng, &subject);
            subject = mutate(rng, &once);
        }
        if rng.chance(1, 5) {
            subject = implicit_subject(rng);
        } else if rng.chance(1, 6) {
            subject = wide_record_subject(rng);
        }
        let nh = *rng.pick(&[0usize, 1, 3, 6, 12, 20]);
        let history: Vec<Value> = (0..nh).map(|i| history_item(rng, i)).collect();
        json!({
            "prelude": rng.chance(1, 10),
            "modules": modules,
            "subject": subject,
            "history": history,
            "gc": GcPolicy::generate(rng).to_json(),
            "padding": rng.below(4096),
            "fresh_process": rng.chance(1, 6),
        })
    }

    fn run(&self, w: &Value) -> Result<(), Violation> {
        let prelude = w["prelude"].as_bool().unwrap_or(false);
        let subject = w["subject"].as_str().unwrap_or("0");
        let empty = Vec::new();
        let history: Vec<&Value> = w["history"].as_array().unwrap_or(&empty).iter().collect();

        // (a) fresh VM
        run::set_context("fresh vm");
        let reference = {
            let vm = new_vm(prelude)?;
            load_subject_modules(&vm, w);
            observe(&vm, subject)
        };
        if subject.starts_with("#[implicit]") {
            run::count("implicit_subjects", 1);
            if reference.contains("Multiple candidates were found") {
                run::count("implicit_ambiguous", 1);
            } else if reference.contains("could not be resolved") {
                run::count("implicit_unresolved", 1);
            } else if reference.starts_with("OK") {
                run::count("implicit_resolved", 1);
            } else {
                run::count("implicit_other", 1);
            }
        }
        let diagnostics = reference.starts_with("ERR");
        let check = |variant: &str, obs: String| -> Result<(), Violation> {
            if obs != reference {
                // first differing line
                let (mut la, mut lb) = (String::new(), String::new());
                for (a, b) in reference.lines().zip(obs.lines()) {
                    if a != b {
                        la = a.to_string();
                        lb = b.to_string();
                        break;
                    }
                }
                if la.is_empty() && lb.is_empty() {
                    la = format!("{} lines", reference.lines().count());
                    lb = format!("{} lines", obs.lines().count());
                }
                return Err(Violation::new(
                    "nondeterministic",
                    format!("variant `{}` differs from a fresh VM: fresh `{}` variant `{}`", variant, clip(&la), clip(&lb)),
                ));
            }
            Ok(())
        };

        // (b) after a history of unrelated work
        if !history.is_empty() {
            run::count("history", history.len() as u64);
            run::set_context("after history");
            let vm = new_vm(prelude)?;
            run_history(&vm, &history);
            load_subject_modules(&vm, w);
            check("after unrelated history", observe(&vm, subject))?;
            // (c) permuted
            run::count("permute", 1);
            let mut perm = history.clone();
            for i in (1..perm.len()).rev() {
                let j = run::choose("permute", i as u32 + 1) as usize;
                perm.swap(i, j);
            }
            let vm = new_vm(prelude)?;
            // subject modules first this time
            load_subject_modules(&vm, w);
            run_history(&vm, &perm);
            check("after permuted history", observe(&vm, subject))?;
        }
        // (d) second VM, (e) child thread
        {
            run::count("second_vm", 1);
            let vm1 = new_vm(prelude)?;
            let vm2 = new_vm(prelude)?;
            load_subject_modules(&vm2, w);
            check("second vm of the process", observe(&vm2, subject))?;
            run::count("child_thread", 1);
            load_subject_modules(&vm1, w);
            let child = vm1
                .new_thread()
                .map_err(|e| Violation::new("harness", e.to_string()))?;
            check("child thread", observe(&child, subject))?;
        }
        // (f) forced collections
        {
            let vm = new_vm(prelude)?;
            load_subject_modules(&vm, w);
            run::set_gc(GcPolicy::from_json(&w["gc"]), true);
            let obs = observe(&vm, subject);
            run::gc_active(false);
            check("forced collection schedule", obs)?;
        }
        // (g) address perturbation
        {
            run::count("padding", 1);
            let n = w["padding"].as_u64().unwrap_or(0) as usize;
            let pad: Vec<Vec<u8>> = (0..n % 64).map(|i| vec![0u8; 16 + (n * (i + 1)) % 4096]).collect();
            let vm = new_vm(prelude)?;
            load_subject_modules(&vm, w);
            let obs = observe(&vm, subject);
            drop(pad);
            check("shifted heap addresses", obs)?;
        }
        // (i) a VM whose import tasks run on a task executor, polled in tape-chosen order (twice:
        // two different completion orders)
        for round in 0..2 {
            run::count("task_order", 1);
            run::set_context("vm with task spawner");
            let queue = crate::exec::TaskQueue::default();
            let pick = |n: usize| run::choose("task", n as u32) as usize;
            let fut = gluon::VmBuilder::new().verif_build_with_spawner(Some(Box::new(queue.clone())));
            let vm = match crate::exec::drive_with_tasks(fut, &queue, 5_000_000, pick) {
                crate::exec::Outcome::Ready(vm, _) => vm,
                _ => return Err(Violation::new("harness", "vm with task spawner did not build")),
            };
            vm.get_database_mut().set_implicit_prelude(prelude);
            externs::install(&vm);
            match crate::exec::drive_with_tasks(vm.load_script_async("simtypes", gen::TYPES_MODULE), &queue, 5_000_000, pick) {
                crate::exec::Outcome::Ready(Ok(()), _) => {}
                _ => return Err(Violation::new("harness", "simtypes did not load on the task executor")),
            }
            load_subject_modules(&vm, w);
            let fut = vm.run_expr_async::<OpaqueValue<RootedThread, Hole>>("subject", subject);
            let obs = match crate::exec::drive_with_tasks(fut, &queue, 5_000_000, pick) {
                crate::exec::Outcome::Ready(Ok((v, t)), _) => format!("OK {}\nTYPE {}", render::render(v.get_variant()), t),
                crate::exec::Outcome::Ready(Err(e), _) => format!("ERR {}", e.emit_string().unwrap_or_else(|_| e.to_string())),
                crate::exec::Outcome::Stuck(p) => format!("HANG after {} polls", p),
                _ => "POLL-CAP".to_string(),
            };
            check(if round == 0 { "import tasks polled in tape order (1)" } else { "import tasks polled in tape order (2)" }, obs)?;
        }
        // (h) fresh process
        if w["fresh_process"].as_bool().unwrap_or(false) {
            run::count("fresh_process", 1);
            let dir = crate::batch::verif_dir().join("sim").join("target").join("scratch");
            let _ = std::fs::create_dir_all(&dir);
            let file = dir.join(format!("c16-{}-{}.json", std::process::id(), run::with(|s| s.tape.decisions)));
            std::fs::write(&file, w.to_string()).map_err(|e| Violation::new("harness", e.to_string()))?;
            let out = Command::new(std::env::current_exe().unwrap())
                .arg("obs")
                .arg(&file)
                .stdout(Stdio::piped())
                .stderr(Stdio::null())
                .output()
                .map_err(|e| Violation::new("harness", e.to_string()))?;
            let _ = std::fs::remove_file(&file);
            let obs = String::from_utf8_lossy(&out.stdout).to_string();
            let obs = obs.strip_suffix("\n<<END>>\n").unwrap_or(&obs).to_string();
            check("fresh process", obs)?;
        }
        run::with(|s| {
            s.stats.nontrivial = history.len() >= 3 || diagnostics;
            s.stats.sample = Some(json!({ "subject": clip(subject), "history_items": history.len(), "observation": clip(&reference) }));
        });
        Ok(())
    }
}

fn clip(s: &str) -> String {
    if s.len() > 400 {
        let mut e = 400;
        while !s.is_char_boundary(e) {
            e -= 1;
        }
        format!("{}…", &s[..e])
    } else {
        s.to_string()
    }
}
