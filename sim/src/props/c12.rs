//! C12 — precompiled bytecode behaves like the source it came from (`storesim`)
//!
//! The "disk" is a byte vector owned by the simulator; the serde_json (de)serialisers that gluon's
//! `compile_to_bytecode` / `Precompiled` accept are run over `FaultyWriter` / `FaultyReader`.
use std::io::{self, Read, Write};

use futures::executor::block_on;
use gluon::{
    compiler_pipeline::{Executable, Precompiled},
    vm::api::{Hole, OpaqueValue},
    RootedThread, ThreadExt,
};
use serde_json::{json, Value};

use crate::{
    engine::{Engine, EngineInfo},
    gen::{self, Gen, Ty},
    prng::Rng,
    render,
    run::{self, Violation},
};

pub struct C12;

// ---------------------------------------------------------------------------------------------
// simulated storage

#[derive(Default)]
struct WriteStats {
    calls: u64,
    fatal_fired: bool,
}

struct FaultyWriter<'a> {
    disk: &'a mut Vec<u8>,
    stats: &'a mut WriteStats,
    /// (kind, call index): kind 1 = EIO at that call, 2 = disk full from that call on
    fatal: (u32, u64),
    /// probability (x/1024) of a benign fault per call
    benign: u32,
}

impl Write for FaultyWriter<'_> {
    fn write(&mut self, buf: &[u8]) -> io::Result<usize> {
        let n = self.stats.calls;
        self.stats.calls += 1;
        if self.fatal.0 == 1 && n == self.fatal.1 {
            self.stats.fatal_fired = true;
            run::count("fault_write_eio", 1);
            return Err(io::Error::new(io::ErrorKind::Other, "simulated EIO"));
        }
        if self.fatal.0 == 2 && n >= self.fatal.1 {
            self.stats.fatal_fired = true;
            run::count("fault_write_enospc", 1);
            // a full disk accepts a part of the first write that does not fit
            if n == self.fatal.1 && buf.len() > 1 {
                self.disk.extend_from_slice(&buf[..buf.len() / 2]);
                return Ok(buf.len() / 2);
            }
            return Err(io::Error::new(io::ErrorKind::Other, "simulated ENOSPC"));
        }
        if self.benign > 0 && !buf.is_empty() {
            match run::decide("write", 3, self.benign, 1024) {
                1 => {
                    run::count("fault_write_eintr", 1);
                    return Err(io::Error::new(io::ErrorKind::Interrupted, "simulated EINTR"));
                }
                2 if buf.len() > 1 => {
                    run::count("fault_write_short", 1);
                    let k = 1 + (n as usize % (buf.len() - 1));
                    self.disk.extend_from_slice(&buf[..k]);
                    return Ok(k);
                }
                _ => {}
            }
        }
        self.disk.extend_from_slice(buf);
        Ok(buf.len())
    }

    fn flush(&mut self) -> io::Result<()> {
        Ok(())
    }
}

struct FaultyReader<'a> {
    data: &'a [u8],
    pos: usize,
    calls: u64,
    /// EIO at that call (u64::MAX = never)
    eio_at: u64,
    benign: u32,
    eio_fired: &'a mut bool,
}

impl Read for FaultyReader<'_> {
    fn read(&mut self, buf: &mut [u8]) -> io::Result<usize> {
        let n = self.calls;
        self.calls += 1;
        if n == self.eio_at {
            *self.eio_fired = true;
            run::count("fault_read_eio", 1);
            return Err(io::Error::new(io::ErrorKind::Other, "simulated EIO"));
        }
        if self.pos >= self.data.len() || buf.is_empty() {
            return Ok(0);
        }
        let mut k = buf.len().min(self.data.len() - self.pos);
        if self.benign > 0 {
            match run::decide("read", 3, self.benign, 1024) {
                1 => {
                    run::count("fault_read_eintr", 1);
                    return Err(io::Error::new(io::ErrorKind::Interrupted, "simulated EINTR"));
                }
                2 if k > 1 => {
                    run::count("fault_read_short", 1);
                    k = 1;
                }
                _ => {}
            }
        }
        buf[..k].copy_from_slice(&self.data[self.pos..self.pos + k]);
        self.pos += k;
        Ok(k)
    }
}

// ---------------------------------------------------------------------------------------------

fn new_vm(w: &Value, with_modules: bool) -> Result<RootedThread, Violation> {
    let vm = gluon::new_vm();
    {
        let mut db = vm.get_database_mut();
        db.set_implicit_prelude(w["prelude"].as_bool().unwrap_or(false));
    }
    vm.load_script("simtypes", gen::TYPES_MODULE)
        .map_err(|e| Violation::new("harness", format!("simtypes: {}", e)))?;
    // the primitive modules every generated program imports are part of the environment
    vm.run_expr::<OpaqueValue<RootedThread, Hole>>("warmup", &format!("{}0\n", gen::PREAMBLE))
        .map_err(|e| Violation::new("harness", format!("warmup: {}", e)))?;
    if with_modules {
        if let Some(ms) = w["modules"].as_array() {
            for (i, m) in ms.iter().enumerate() {
                if vm.load_script(&format!("m{}", i), m.as_str().unwrap_or("0")).is_err() {
                    // a generated helper module the checker rejects: nothing to compare
                    return Err(Violation::new("skip", "helper module rejected"));
                }
            }
        }
    }
    Ok(vm)
}

fn outcome_of_source(vm: &RootedThread, name: &str, src: &str) -> String {
    match vm.run_expr::<OpaqueValue<RootedThread, Hole>>(name, src) {
        Ok((v, t)) => format!("OK {} : {}", render::render(v.get_variant()), t),
        Err(e) => format!("ERR {}", first_line(&e.to_string())),
    }
}

/// `OK value : type` strings equal after removing `forall vars . ` prefixes and open-row tails
/// ` | var`
fn same_modulo_generalisation(a: &str, b: &str) -> bool {
    fn norm(s: &str) -> String {
        // (long types are printed over several lines)
        let s = s.split_whitespace().collect::<Vec<_>>().join(" ");
        let s = s.as_str();
        let mut out = String::new();
        let mut rest = s;
        // drop `forall a b . `
        while let Some(i) = rest.find("forall ") {
            out.push_str(&rest[..i]);
            match rest[i..].find(" . ") {
                Some(j) => rest = &rest[i + j + 3..],
                None => {
                    rest = &rest[i..];
                    break;
                }
            }
        }
        out.push_str(rest);
        // drop ` | a` before a closing brace
        let mut res = String::new();
        let mut rest = out.as_str();
        while let Some(i) = rest.find(" | ") {
            let after = &rest[i + 3..];
            let ident_len = after.chars().take_while(|c| c.is_alphanumeric() || *c == '_').count();
            if ident_len > 0 && after[ident_len..].starts_with(" }") {
                res.push_str(&rest[..i]);
                rest = &after[ident_len..];
            } else {
                res.push_str(&rest[..i + 3]);
                rest = after;
            }
        }
        res.push_str(rest);
        res
    }
    norm(a) == norm(b)
}

fn first_line(s: &str) -> String {
    s.lines().take(2).collect::<Vec<_>>().join(" / ")
}

fn probe(vm: &RootedThread, tag: &str) -> Result<(), Violation> {
    // the VM must still evaluate programs correctly after a failed load
    let src = format!("{}(array.len (array.append [1, 2, 3] [4])) #Int+ (string.len \"abc\")\n", gen::PREAMBLE);
    match vm.run_expr::<i64>(&format!("probe_{}", tag), &src) {
        Ok((7, _)) => Ok(()),
        other => Err(Violation::new(
            "vm-unusable-after-failed-load",
            format!("probe after {} returned {:?}", tag, other.map(|x| x.0).map_err(|e| first_line(&e.to_string()))),
        )),
    }
}

enum LoadResult {
    Ok(String),
    Err(String),
}

fn load_precompiled(vm: &RootedThread, name: &str, bytes: &[u8], benign: u32, eio_at: u64, eio_fired: &mut bool) -> LoadResult {
    let reader = FaultyReader {
        data: bytes,
        pos: 0,
        calls: 0,
        eio_at,
        benign,
        eio_fired,
    };
    let mut de = serde_json::Deserializer::from_reader(reader);
    let r = block_on(Precompiled(&mut de).run_expr(
        &mut vm.module_compiler(&mut vm.get_database()),
        &**vm,
        name,
        "",
        (),
    ));
    match r {
        Ok(v) => LoadResult::Ok(format!("OK {} : {}", render::render(v.value.get_variant()), v.typ)),
        Err(e) => LoadResult::Err(first_line(&e.to_string())),
    }
}

impl Engine for C12 {
    fn id(&self) -> &'static str {
        "C12"
    }

    fn info(&self) -> EngineInfo {
        EngineInfo {
            rule: "one run = a generated program (optionally importing 1-2 generated inline modules; in a fifth of the runs its result also carries boundary constants of every literal kind: signed zero, huge/small/whole floats, extreme ints, bytes, strings with escapes and multi-byte characters, char literals) is evaluated from source in VM A, compiled to bytecode through serde_json over a FaultyWriter onto the simulated disk (short writes, EINTR, EIO at the k-th call, disk full at the k-th call), the file is optionally torn (truncated at a tape-chosen offset; thorough tier additionally sweeps 64 evenly spaced offsets) or one global reference in it is renamed to an undefined module, or one shared-node reference is made dangling, or one scalar gets the wrong JSON type, and it is loaded back through a FaultyReader (EINTR, 1-byte reads, EIO at the k-th call) with Precompiled::run_expr into the same VM, a fresh VM with the helper modules, or a fresh VM without them (restart: only the disk survives). Non-trivial = the bytecode was produced and at least one fault fired or the target was a fresh VM; distinct = distinct hash of (workload, decision tape).",
            real: vec!["compile_to_bytecode / Precompiled::run_expr / load_bytecode, SeSeed/DeSeed, serde derives of CompiledModule, new_global_thunk, VM execution of the loaded module, serde_json"],
            stubbed: vec!["the disk (a Vec<u8>)", "io::Write / io::Read given to serde_json (fault injecting)", "process restart = a second VM in the same process"],
            not_exercised: vec!["bincode or other serde formats", "file system", "std.io"],
            fault_kinds: vec!["write (EINTR / short write, per call)", "read (EINTR / 1-byte read, per call)", "fault_write_eio", "fault_write_enospc", "fault_read_eio", "truncate (torn file)", "undefined_global (renamed module reference)", "dangling_reference (a shared-node reference of the stored form points to a node that is not in the file)", "wrong_type_scalar (one number replaced by a string or one string by a number)", "missing_module (fresh VM without the imported inline module)"],
            assumptions: vec![
                "only faults the property names are expected to produce an error: truncation, I/O errors, undefined references; arbitrary bit flips are not injected (a flipped operand is legal bytecode)",
                "float literals in generated programs are exactly representable so that JSON round-trips them",
            ],
            shrink: vec!["/modules"],
            quick: (30000, 150),
            thorough: (200000, 1100),
        }
    }

    fn generate(&self, rng: &mut Rng, tier: &str) -> Value {
        let nmods = *rng.pick(&[0usize, 0, 1, 1, 2]);
        let mut modules = Vec::new();
        let mut env = Vec::new();
        let mut imports = String::new();
        for i in 0..nmods {
            let ty = {
                let mut g = Gen::new(rng, 4);
                g.any_ty(2)
            };
            modules.push(json!(gen::program(rng, &ty, 40, 4)));
            env.push((format!("m{}", i), ty));
            imports.push_str(&format!("let m{} = import! m{}\n", i, i));
        }
        let ty = {
            let mut g = Gen::new(rng, 4);
            g.data_ty(2)
        };
        let fuel = *rng.pick(&[15, 40, 80, 150]);
        let (hoisted, body) = {
            let mut g = Gen::new(rng, fuel).with_env(env);
            g.max_loop = 10;
            let b = g.expr(&ty, 5);
            (g.hoisted.concat(), b)
        };
        // in a fifth of the runs the result also carries boundary constants of every literal kind
        // (signed zero, non-integral and huge floats, extreme ints, bytes, strings with escapes and
        // multi-byte characters, char literals): the stored form must give back exactly these
        let body = if rng.chance(1, 5) {
            format!(
                "{{ v = {}, k = {{ nz = -0.0, pinf = 1.0 #Float/ -0.0, big = 9007199254740993.0, small = 0.000001, whole = 100.0, mx = 9223372036854775807, neg = -42, by = 255b, st = \"q\\\"b\\\\s\\nn\\tt é λ\", ch = 'é', ar = [-0.0, 0.0, 2.5] }} }}",
                body
            )
        } else {
            body
        };
        let prog = format!("{}{}{}{}\n", gen::PREAMBLE, imports, hoisted, body);
        // 10/11: single-field corruptions of the stored form (dangling shared-node reference,
        // scalar of the wrong JSON type)
        let fault_class = rng.below(12);
        json!({
            "prelude": rng.chance(1, 10),
            "modules": modules,
            "prog": prog,
            "ty": ty.show(),
            // 0-3: benign only, 4: write EIO, 5: disk full, 6: read EIO, 7: truncation, 8: undefined global, 9: no faults at all
            "fault_class": fault_class,
            "benign_write": if fault_class == 9 { 0 } else { *rng.pick(&[0u32, 4, 32, 128]) },
            "benign_read": if fault_class == 9 { 0 } else { *rng.pick(&[0u32, 1, 8, 64]) },
            "fault_pos": rng.below(6000),
            "sweep": tier == "thorough" && rng.chance(1, 40),
        })
    }

    fn run(&self, w: &Value) -> Result<(), Violation> {
        let name = "prog";
        let src = w["prog"].as_str().unwrap_or("0");
        let vm_a = match new_vm(w, true) {
            Ok(vm) => vm,
            Err(v) if v.oracle == "skip" => {
                run::count("helper_module_rejected", 1);
                return Ok(());
            }
            Err(v) => return Err(v),
        };
        run::set_context("source evaluation");
        let expected = outcome_of_source(&vm_a, name, src);
        if expected.starts_with("ERR") {
            run::count("source_failed", 1);
        }
        let fault_class = w["fault_class"].as_u64().unwrap_or(9);
        let pos = w["fault_pos"].as_u64().unwrap_or(0);
        let benign_w = w["benign_write"].as_u64().unwrap_or(0) as u32;
        let benign_r = w["benign_read"].as_u64().unwrap_or(0) as u32;

        // ---- save
        run::set_context("compile_to_bytecode");
        let mut disk: Vec<u8> = Vec::new();
        let mut wstats = WriteStats::default();
        let save = {
            let writer = FaultyWriter {
                disk: &mut disk,
                stats: &mut wstats,
                fatal: match fault_class {
                    4 => (1, pos),
                    5 => (2, pos),
                    _ => (0, 0),
                },
                benign: benign_w,
            };
            let mut ser = serde_json::Serializer::new(writer);
            block_on(vm_a.compile_to_bytecode(name, src, &mut ser)).map_err(|e| match e {
                either::Either::Left(e) => format!("compile: {}", first_line(&e.to_string())),
                either::Either::Right(e) => format!("serialize: {}", e),
            })
        };
        run::count("write_calls", wstats.calls);
        if wstats.fatal_fired {
            // an injected I/O error must surface: an Ok would acknowledge a file that is not on disk
            if save.is_ok() {
                return Err(Violation::new(
                    "write-error-swallowed",
                    "compile_to_bytecode returned Ok although the writer reported an I/O error",
                ));
            }
            // whatever reached the disk is a torn file: loading it must fail cleanly
            let mut fired = false;
            run::set_context("load of a file torn by a write error");
            match load_precompiled(&vm_a, name, &disk, 0, u64::MAX, &mut fired) {
                LoadResult::Ok(s) if disk.len() > 0 => {
                    return Err(Violation::new(
                        "torn-file-accepted",
                        format!("a file cut short by a failed write ({} bytes) loaded successfully: {}", disk.len(), s),
                    ))
                }
                _ => {}
            }
            probe(&vm_a, "torn_write")?;
            run::with(|s| s.stats.nontrivial = true);
            return Ok(());
        }
        let bytes = match save {
            Ok(()) => disk,
            Err(e) => {
                if expected.starts_with("OK") {
                    return Err(Violation::new(
                        "save-failed",
                        format!("the source evaluates but compile_to_bytecode failed without any injected error: {}", e),
                    ));
                }
                run::count("save_failed_like_source", 1);
                return Ok(());
            }
        };
        run::count("bytes_written", bytes.len() as u64);
        if let Ok(path) = std::env::var("SIM_DUMP_BYTECODE") {
            let _ = std::fs::write(path, &bytes);
        }

        // ---- choose where to load
        let has_imports = w["modules"].as_array().map_or(false, |m| !m.is_empty());
        let target = match run::choose("target", 3) {
            0 => "same",
            1 => "fresh",
            _ if has_imports && src.contains("m0") => "fresh-without-modules",
            _ => "fresh",
        };
        let vm_b;
        let vm: &RootedThread = match target {
            "same" => &vm_a,
            "fresh" => {
                vm_b = new_vm(w, true)?;
                &vm_b
            }
            _ => {
                vm_b = new_vm(w, false)?;
                &vm_b
            }
        };
        let imports_used = {
            // does the compiled module actually reference a helper module?
            let v: Value = serde_json::from_slice(&bytes).unwrap_or(Value::Null);
            v["module"]["module_globals"]
                .as_array()
                .map_or(false, |g| g.iter().any(|x| x.to_string().contains("\"@m")))
        };

        let mut deferred: Option<Violation> = None;
        // the documented API pair (recorded finding if it fails)
        if run::flip("try_load_bytecode", 1, 8) {
            run::set_context("load_bytecode of compile_to_bytecode output");
            let mut de = serde_json::Deserializer::from_reader(io::Cursor::new(bytes.clone()));
            let r = block_on(vm_a.load_bytecode("prog_loaded", &mut de));
            if let Err(e) = r {
                if expected.starts_with("OK") {
                    deferred = Some(Violation::new(
                        "load_bytecode-rejects-compile_to_bytecode-output",
                        format!("ThreadExt::load_bytecode cannot load what ThreadExt::compile_to_bytecode wrote: {}", first_line(&e.to_string())),
                    ));
                }
            }
        }

        match fault_class {
            7 => {
                // torn file: truncation
                let mut offsets = Vec::new();
                if w["sweep"].as_bool().unwrap_or(false) {
                    let step = (bytes.len() / 64).max(1);
                    let mut o = 0;
                    while o < bytes.len() {
                        offsets.push(o);
                        o += step;
                    }
                    offsets.push(bytes.len() - 1);
                } else {
                    offsets.push(run::choose("cut", bytes.len() as u32) as usize);
                }
                for off in offsets {
                    run::count("fault_truncate", 1);
                    run::set_context(format!("load of a file truncated at {}/{}", off, bytes.len()));
                    let mut fired = false;
                    match load_precompiled(vm, name, &bytes[..off], benign_r, u64::MAX, &mut fired) {
                        LoadResult::Ok(s) => {
                            return Err(Violation::new(
                                "torn-file-accepted",
                                format!("a file truncated at byte {} of {} loaded successfully: {}", off, bytes.len(), s),
                            ))
                        }
                        LoadResult::Err(_) => {}
                    }
                }
                probe(vm, "truncated")?;
            }
            8 if imports_used => {
                run::count("fault_undefined_global", 1);
                let mut v: Value = serde_json::from_slice(&bytes).map_err(|e| Violation::new("harness", e.to_string()))?;
                if let Some(gs) = v["module"]["module_globals"].as_array_mut() {
                    let k = run::choose("which_global", gs.len() as u32) as usize;
                    let replaced = json!("@undefined.module.zz");
                    if let Some(m) = gs[k].get_mut("Marked").and_then(|m| m.as_array_mut()) {
                        m[1] = replaced;
                    } else if let Some(p) = gs[k].get_mut("Plain") {
                        *p = replaced;
                    }
                }
                let corrupted = serde_json::to_vec(&v).unwrap_or_default();
                run::set_context("load of a file whose global reference names an undefined module");
                let mut fired = false;
                match load_precompiled(vm, name, &corrupted, benign_r, u64::MAX, &mut fired) {
                    LoadResult::Ok(s) => {
                        return Err(Violation::new(
                            "undefined-reference-accepted",
                            format!("bytecode referring to an undefined global loaded successfully: {}", s),
                        ))
                    }
                    LoadResult::Err(_) => {}
                }
                probe(vm, "undefined_global")?;
            }
            10 | 11 => {
                let mut v: Value = serde_json::from_slice(&bytes).map_err(|e| Violation::new("harness", e.to_string()))?;
                // paths of all `{"Reference": n}` nodes / all number and string leaves
                fn collect(v: &Value, path: &mut Vec<String>, refs: &mut Vec<Vec<String>>, leaves: &mut Vec<Vec<String>>) {
                    match v {
                        Value::Object(m) => {
                            if m.len() == 1 && m.get("Reference").map_or(false, |r| r.is_u64()) {
                                refs.push(path.clone());
                            }
                            for (k, x) in m {
                                path.push(k.clone());
                                collect(x, path, refs, leaves);
                                path.pop();
                            }
                        }
                        Value::Array(a) => {
                            for (i, x) in a.iter().enumerate() {
                                path.push(i.to_string());
                                collect(x, path, refs, leaves);
                                path.pop();
                            }
                        }
                        Value::Number(_) | Value::String(_) => leaves.push(path.clone()),
                        _ => {}
                    }
                }
                fn at<'a>(v: &'a mut Value, path: &[String]) -> &'a mut Value {
                    let mut cur = v;
                    for p in path {
                        cur = match cur {
                            Value::Array(a) => &mut a[p.parse::<usize>().unwrap_or(0)],
                            other => &mut other[p.as_str()],
                        };
                    }
                    cur
                }
                let (mut refs, mut leaves) = (Vec::new(), Vec::new());
                collect(&v, &mut Vec::new(), &mut refs, &mut leaves);
                let must_fail;
                let what;
                if fault_class == 10 && !refs.is_empty() {
                    let k = run::choose("which_reference", refs.len() as u32) as usize;
                    *at(&mut v, &refs[k]) = json!({ "Reference": 1_000_000 + k as u64 });
                    run::count("fault_dangling_reference", 1);
                    must_fail = true;
                    what = format!("the shared-node reference at /{} points to a node that is not in the file", refs[k].join("/"));
                } else if !leaves.is_empty() {
                    let k = run::choose("which_leaf", leaves.len() as u32) as usize;
                    let leaf = at(&mut v, &leaves[k]);
                    *leaf = if leaf.is_number() { json!("corrupt") } else { json!(-7) };
                    run::count("fault_wrong_type_scalar", 1);
                    must_fail = false;
                    what = format!("the scalar at /{} has the wrong JSON type", leaves[k].join("/"));
                } else {
                    return Ok(());
                }
                let corrupted = serde_json::to_vec(&v).unwrap_or_default();
                run::set_context(format!("load of a corrupted file: {}", what));
                let mut fired = false;
                match load_precompiled(vm, name, &corrupted, benign_r, u64::MAX, &mut fired) {
                    LoadResult::Ok(s) if must_fail => {
                        return Err(Violation::new(
                            "undefined-reference-accepted",
                            format!("{} but it loaded successfully: {}", what, s),
                        ))
                    }
                    LoadResult::Ok(s) => {
                        // a scalar nobody reads (or a string that may be anything): then the result
                        // must still be the source's
                        if s != expected {
                            return Err(Violation::new(
                                "corrupted-file-accepted-with-different-result",
                                format!("{}; it loaded and gave `{}` instead of `{}`", what, clip(&s), clip(&expected)),
                            ));
                        }
                        run::count("wrong_type_scalar_ignored", 1);
                    }
                    LoadResult::Err(_) => {}
                }
                probe(vm, "corrupted")?;
            }
            _ => {
                let eio_at = if fault_class == 6 { pos * 3 } else { u64::MAX };
                let mut fired = false;
                run::set_context(format!("load into {} VM", target));
                let r = load_precompiled(vm, name, &bytes, benign_r, eio_at, &mut fired);
                if fired {
                    if let LoadResult::Ok(s) = r {
                        return Err(Violation::new(
                            "read-error-swallowed",
                            format!("the reader reported an I/O error but loading succeeded: {}", s),
                        ));
                    }
                    probe(vm, "read_eio")?;
                } else if target == "fresh-without-modules" && imports_used {
                    run::count("fault_missing_module", 1);
                    if let LoadResult::Ok(s) = r {
                        return Err(Violation::new(
                            "undefined-reference-accepted",
                            format!("bytecode importing a module the VM does not define loaded successfully: {}", s),
                        ));
                    }
                    probe(vm, "missing_module")?;
                } else {
                    // benign faults only: equivalence with the source
                    let got = match r {
                        LoadResult::Ok(s) => s,
                        LoadResult::Err(e) => format!("ERR {}", e),
                    };
                    if expected.starts_with("OK") && got != expected && same_modulo_generalisation(&got, &expected) {
                        // same value; the printed type differs only in how a row variable was
                        // generalised (`forall a . { .. | a }` vs `{ .. }`): the two entry points
                        // (run_expr with an expected type hole, compile_to_bytecode without one)
                        // typecheck the source differently, nothing the stored form changes
                        run::count("type_text_differs_only_in_generalisation", 1);
                    } else if expected.starts_with("OK") && got != expected {
                        return Err(Violation::new(
                            "bytecode-differs-from-source",
                            format!("target {}: source gave `{}` but the precompiled module gave `{}`", target, clip(&expected), clip(&got)),
                        ));
                    }
                    if expected.starts_with("ERR vm") || expected.starts_with("ERR") {
                        run::count("source_failed_compared_loosely", 1);
                    }
                    run::count("equivalence_checked", 1);
                }
            }
        }
        if let Some(v) = deferred {
            return Err(v);
        }
        let fired_any = run::with(|s| s.tape.fired.values().sum::<u64>() > 0);
        run::with(|s| {
            s.stats.nontrivial = fired_any || target != "same" || fault_class >= 4 && fault_class != 9;
            s.stats.sample = Some(json!({
                "prog": clip(src), "modules": w["modules"].as_array().map(|m| m.len()), "fault_class": fault_class,
                "target": target, "bytes": bytes.len(), "expected": clip(&expected)
            }));
        });
        Ok(())
    }
}

fn clip(s: &str) -> String {
    if s.len() > 400 {
        let mut e = 400;
        while !s.is_char_boundary(e) {
            e -= 1;
        }
        format!("{}…", &s[..e])
    } else {
        s.to_string()
    }
}

#[allow(dead_code)]
fn unused(_: Ty) {}
