//! C06 — scripts cannot crash the host; errors are values and the VM stays usable (`faultsim`)
use std::sync::atomic::{AtomicBool, Ordering};

use futures::task::Poll;
use gluon::{
    vm::{
        api::{Hole, OpaqueValue},
        thread::{HookFlags, ThreadInternal},
    },
    RootedThread, ThreadExt,
};
use serde_json::{json, Value};

use crate::{
    engine::{Engine, EngineInfo},
    exec, externs,
    gen::{self, Gen},
    prng::Rng,
    render,
    run::{self, GcPolicy, Violation},
};

pub struct C06;

pub const PRIM_PREAMBLE: &str = "let array = import! std.array.prim\nlet string = import! std.string.prim\nlet int = import! std.int.prim\nlet float = import! std.float.prim\nlet char = import! std.char.prim\nlet byte = import! std.byte.prim\nlet prim = import! std.prim\nlet lz = import! std.lazy.prim\nlet sim = import! sim\nlet { Tree } = import! simtypes\n";

/// (module, function, argument kinds)
const PRIMS: &[(&str, &str, &str)] = &[
    ("string", "len", "s"), ("string", "is_empty", "s"), ("string", "is_char_boundary", "si"),
    ("string", "as_bytes", "s"), ("string", "split_at", "si"), ("string", "contains", "ss"),
    ("string", "starts_with", "ss"), ("string", "ends_with", "ss"), ("string", "find", "ss"),
    ("string", "rfind", "ss"), ("string", "trim", "s"), ("string", "trim_start", "s"),
    ("string", "trim_start_matches", "ss"), ("string", "trim_end", "s"), ("string", "trim_end_matches", "ss"),
    ("string", "append", "ss"), ("string", "append_char", "sc"), ("string", "from_char", "c"),
    ("string", "slice", "sii"), ("string", "from_utf8", "B"), ("string", "char_at", "si"),
    ("array", "len", "A"), ("array", "index", "Ai"), ("array", "append", "AA"), ("array", "slice", "Aii"),
    ("array", "len", "S"), ("array", "index", "Si"), ("array", "append", "SS"), ("array", "slice", "Sii"),
    ("int", "from_str_radix", "si"), ("int", "shl", "ii"), ("int", "arithmetic_shr", "ii"), ("int", "logical_shr", "ii"),
    ("int", "bitxor", "ii"), ("int", "bitand", "ii"), ("int", "bitor", "ii"), ("int", "count_ones", "i"),
    ("int", "count_zeros", "i"), ("int", "leading_zeros", "i"), ("int", "trailing_zeros", "i"),
    ("int", "rotate_left", "ii"), ("int", "rotate_right", "ii"), ("int", "swap_bytes", "i"), ("int", "from_be", "i"),
    ("int", "from_le", "i"), ("int", "to_be", "i"), ("int", "to_le", "i"), ("int", "pow", "ii"), ("int", "abs", "i"),
    ("int", "rem", "ii"), ("int", "rem_euclid", "ii"), ("int", "checked_rem", "ii"), ("int", "checked_rem_euclid", "ii"),
    ("int", "saturating_add", "ii"), ("int", "saturating_sub", "ii"), ("int", "saturating_mul", "ii"),
    ("int", "wrapping_add", "ii"), ("int", "wrapping_sub", "ii"), ("int", "wrapping_mul", "ii"), ("int", "wrapping_div", "ii"),
    ("int", "wrapping_abs", "i"), ("int", "wrapping_rem", "ii"), ("int", "wrapping_rem_euclid", "ii"), ("int", "wrapping_negate", "i"),
    ("int", "overflowing_add", "ii"), ("int", "overflowing_sub", "ii"), ("int", "overflowing_mul", "ii"), ("int", "overflowing_div", "ii"),
    ("int", "overflowing_abs", "i"), ("int", "overflowing_rem", "ii"), ("int", "overflowing_rem_euclid", "ii"), ("int", "overflowing_negate", "i"),
    ("int", "signum", "i"), ("int", "is_positive", "i"), ("int", "is_negative", "i"), ("int", "from_byte", "b"),
    ("int", "from_float", "f"), ("int", "parse", "s"),
    ("float", "is_nan", "f"), ("float", "is_infinite", "f"), ("float", "is_finite", "f"), ("float", "is_normal", "f"),
    ("float", "floor", "f"), ("float", "ceil", "f"), ("float", "round", "f"), ("float", "trunc", "f"), ("float", "fract", "f"),
    ("float", "abs", "f"), ("float", "signum", "f"), ("float", "mul_add", "fff"), ("float", "recip", "f"), ("float", "rem", "ff"),
    ("float", "rem_euclid", "ff"), ("float", "powi", "fi"), ("float", "powf", "ff"), ("float", "sqrt", "f"), ("float", "exp", "f"),
    ("float", "ln", "f"), ("float", "log2", "f"), ("float", "max", "ff"), ("float", "min", "ff"), ("float", "hypot", "ff"),
    ("float", "atan2", "ff"), ("float", "sin_cos", "f"), ("float", "from_int", "i"), ("float", "parse", "s"),
    ("byte", "shl", "bb"), ("byte", "shr", "bb"), ("byte", "bitxor", "bb"), ("byte", "count_ones", "b"), ("byte", "rotate_left", "bi"),
    ("byte", "pow", "bi"), ("byte", "saturating_add", "bb"), ("byte", "wrapping_add", "bb"), ("byte", "wrapping_sub", "bb"),
    ("byte", "wrapping_mul", "bb"), ("byte", "wrapping_div", "bb"), ("byte", "overflowing_add", "bb"), ("byte", "overflowing_div", "bb"),
    ("byte", "from_int", "i"), ("byte", "parse", "s"),
    ("char", "from_int", "i"), ("char", "to_int", "c"), ("char", "is_digit", "ci"), ("char", "to_digit", "ci"),
    ("char", "len_utf8", "c"), ("char", "len_utf16", "c"), ("char", "is_alphabetic", "c"), ("char", "is_whitespace", "c"),
    ("prim", "show_int", "i"), ("prim", "show_float", "f"), ("prim", "show_byte", "b"), ("prim", "show_char", "c"),
    ("prim", "string_compare", "ss"), ("prim", "string_eq", "ss"),
];

fn boundary(rng: &mut Rng, kind: char) -> String {
    match kind {
        'i' => rng
            .pick(&[
                "int.min_value", "int.max_value", "(0 #Int- 1)", "0", "1", "2", "63", "64", "65", "100",
                "(0 #Int- 64)", "4294967296", "1114111", "1114112", "55296", "255", "256", "36", "37", "257", "1024", "3", "300",
            ])
            .to_string(),
        'f' => rng
            .pick(&[
                "0.0", "1.5", "(0.0 #Float- 1.5)", "(0.0 #Float/ 0.0)", "(1.0 #Float/ 0.0)",
                "((0.0 #Float- 1.0) #Float/ 0.0)", "1.0e308", "1.0e-320", "9.3e18", "0.5",
            ])
            .to_string(),
        's' => {
            if rng.chance(1, 6) {
                // long strings with a multi-byte character around the usual buffer sizes
                let n = *rng.pick(&[254usize, 255, 256, 257, 1023, 1024, 4095]);
                let fill = *rng.pick(&["a", " ", "0"]);
                format!("\"{}{}\"", fill.repeat(n), *rng.pick(&["å", "日本", "é\u{301}", ""]))
            } else {
                rng.pick(&["\"\"", "\"a\"", "\"é\"", "\"日本語\"", "\"abc def\"", "\"  x  \"", "\"-1\"", "\"zz\"", "\"9223372036854775808\"", "\"1e999\""])
                    .to_string()
            }
        }
        'c' => {
            // (a multi-byte char literal makes the tokenizer panic: recorded finding, kept rare)
            if rng.chance(1, 40) {
                "'é'".to_string()
            } else {
                rng.pick(&["'a'", "'0'", "' '", "'z'", "'~'"]).to_string()
            }
        }
        'b' => rng.pick(&["0b", "1b", "7b", "8b", "9b", "255b", "128b"]).to_string(),
        'A' => rng.pick(&["[1]", "[1, 2, 3]", "(array.slice [1] 0 0)"]).to_string(),
        'S' => rng.pick(&["[\"a\"]", "[\"a\", \"\", \"日本\"]", "(array.slice [\"a\"] 1 1)"]).to_string(),
        'B' => rng.pick(&["[104b, 105b]", "[255b, 254b]", "[195b]", "(array.slice [1b] 0 0)"]).to_string(),
        _ => "0".to_string(),
    }
}

fn prim_program(rng: &mut Rng) -> String {
    let (m, f, kinds) = *rng.pick(PRIMS);
    let args: Vec<String> = kinds.chars().map(|k| boundary(rng, k)).collect();
    format!("{}{}.{} {}\n", PRIM_PREAMBLE, m, f, args.join(" "))
}

/// An expression of type Int that fails at run time
fn failing_expr(rng: &mut Rng) -> String {
    rng.pick(&[
        "(prim.error \"boom\")",
        "(array.index [1, 2] 7)",
        "(array.index [1, 2] (0 #Int- 1))",
        "(1 #Int/ 0)",
        "(int.max_value #Int+ 1)",
        "(int.min_value #Int- 1)",
        "(int.max_value #Int* 2)",
        "(int.min_value #Int/ (0 #Int- 1))",
        "((0 #Int- 7) #Int/ (0 #Int* 3))",
        "(let d = 0 #Int- 1 in (int.min_value #Int+ 0) #Int/ d)",
        "(sim.fail \"host function failed\")",
        "(string.len (string.slice \"abc\" 2 1))",
        "(string.len (string.slice \"日本\" 1 2))",
        "(array.len (array.slice [1, 2, 3] 2 9))",
        // failures that are the *result of an asynchronously completing primitive*
        "(lz.force (lz.lazy (\\u -> prim.error \"thunk failed\")))",
        "(lz.force (lz.lazy (\\u -> 1 #Int+ lz.force (lz.lazy (\\v -> array.index [1] 5)))))",
    ])
    .to_string()
}

fn failing_program(rng: &mut Rng) -> String {
    let fail = failing_expr(rng);
    let depth = rng.range(0, 40);
    let junk = {
        let mut g = Gen::new(rng, 30);
        g.allow_match = false;
        g.max_loop = 8;
        let t = g.data_ty(1);
        g.expr(&t, 3)
    };
    let body = match rng.below(5) {
        // non tail recursion: `depth` frames are live when the failure happens
        0 => format!("(rec let deep n = if n #Int< 1 then {} else (1 #Int+ deep (n #Int- 1)) in deep {})", fail, depth),
        // failure below closures and a partial application
        1 => format!("(let f a b c = if a #Int< b then {} else c in let g = f 1 in let h = g 2 in (let junk = {} in h 3))", fail, junk),
        // over application: the failing call is the extra application
        2 => format!("(let k a = (\\b -> if a #Int< b then {} else b) in (let junk = {} in k 1 2))", fail, junk),
        // inside array / record construction
        3 => format!("(array.len [1, {}, 3])", fail),
        _ => format!("(let junk = {} in (let r = {{ a = 1, b = {} }} in r.b))", junk, fail),
    };
    format!("{}{}\n", PRIM_PREAMBLE, body)
}

fn ok_program(rng: &mut Rng) -> String {
    let ty = {
        let mut g = Gen::new(rng, 4);
        g.any_ty(2)
    };
    let fuel = *rng.pick(&[10, 30, 60]);
    gen::program(rng, &ty, fuel, 5)
}

/// Recursive *value* bindings (`rec let x = <not a function>`): legal ones (records and variants
/// that refer to themselves through a closure) and ones the front end has to reject
fn rec_value_program(rng: &mut Rng) -> String {
    let k = rng.below(100);
    let body = match rng.below(7) {
        0 => format!("rec let t = {}\nt\n", k),
        1 => format!("rec let f x = x #Int+ {}\nlet t = f 1\nt\n", k),
        2 => format!("rec let r = {{ a = {}, g = \\u -> r.a }}\nr.g ()\n", k),
        3 => format!("rec let v = Node Tip \"s{}\" Tip\n1\n", k),
        4 => format!("rec let t = \"s{}\"\nlet u = string.len t\nu\n", k),
        5 => format!("rec let a = [{}, 2]\narray.len a\n", k),
        _ => format!("rec let r = {{ a = {}, g = \\u -> s.b }}\nlet s = {{ b = r.a #Int+ 1 }}\nr.g ()\n", k),
    };
    format!("{}{}", gen::PREAMBLE, body)
}

/// A function value that the *host* calls through `Function::call` (first line: `// a b`, the
/// arguments); some calls fail inside the function
fn hostcall_program(rng: &mut Rng) -> String {
    let (a, b) = *rng.pick(&[(8i64, 2i64), (1, 0), (3, 7), (0, 0), (5, 1), (i64::MIN, -1), (2, 40)]);
    let body = match rng.below(5) {
        0 => "\\x y -> x #Int/ y".to_string(),
        1 => "\\x y -> array.index [x, x, x] y".to_string(),
        2 => "\\x y -> (rec let deep n = if n #Int< 1 then x #Int/ y else 1 #Int+ deep (n #Int- 1) in deep 6)".to_string(),
        3 => "\\x y -> if y #Int< 1 then prim.error \"host called function failed\" else x #Int+ y".to_string(),
        _ => "\\x y -> string.len (string.slice \"abcdef\" x y)".to_string(),
    };
    format!("// {} {}\n{}{}\n", a, b, PRIM_PREAMBLE, body)
}

/// Evaluates the function of a `hostcall` step and calls it from the host
fn hostcall(vm: &RootedThread, name: &str, src: &str) -> String {
    use gluon::vm::api::{Getable, OwnedFunction};
    let mut args = src.lines().next().unwrap_or("").trim_start_matches("//").split_whitespace().filter_map(|x| x.parse::<i64>().ok());
    let (a, b) = (args.next().unwrap_or(1), args.next().unwrap_or(1));
    let f = match vm.run_expr::<OpaqueValue<RootedThread, Hole>>(name, src) {
        Ok((f, _)) => f,
        Err(e) => return classify(&e),
    };
    let mut f: OwnedFunction<fn(i64, i64) -> i64> = Getable::from_value(vm, f.get_variant());
    match f.call(a, b) {
        Ok(v) => format!("OK {} : Int", v),
        Err(e) => classify(&gluon::Error::from(e)),
    }
}

fn io_program(rng: &mut Rng) -> String {
    // IO typed programs (run with run_io): polymorphic results, exceptions, catch
    let v = rng.below(9);
    let head = format!("{}let io = import! std.io.prim\n", PRIM_PREAMBLE);
    match v {
        // handlers that fail themselves, nested catches, a failing lazy inside an action
        5 => format!("{}io.catch (io.throw \"first\") (\\e -> io.throw (string.append e \" second\"))\n", head),
        6 => format!("{}io.catch (io.catch (io.throw \"inner\") (\\e -> io.throw \"handler\")) (\\e -> io.wrap (string.len e))\n", head),
        7 => format!("{}io.catch (io.flat_map (\\x -> io.wrap (x #Int+ {})) (io.wrap 1)) (\\e -> io.flat_map (\\y -> io.wrap y) (io.wrap {}))\n", head, failing_expr(rng), failing_expr(rng)),
        8 => format!("{}io.flat_map (\\x -> io.wrap (lz.force (lz.lazy (\\u -> x #Int+ {})))) (io.wrap 1)\n", head, failing_expr(rng)),
        0 => format!("{}io.wrap (rec let loop n acc = if n #Int< 1 then acc else loop (n #Int- 1) {{ f0 = acc.f0 #Int+ n }} in loop 5 {{ f0 = 1 }})\n", head),
        1 => format!("{}io.throw \"thrown\"\n", head),
        2 => format!("{}io.catch (io.throw \"thrown\") (\\e -> io.wrap (string.len e))\n", head),
        3 => format!("{}io.flat_map (\\x -> io.wrap (x #Int+ {})) (io.wrap 1)\n", head, failing_expr(rng)),
        _ => format!("{}io.catch (io.flat_map (\\x -> io.wrap {}) (io.wrap 1)) (\\e -> io.wrap 7)\n", head, failing_expr(rng)),
    }
}

static HOOK_YIELDED: AtomicBool = AtomicBool::new(false);

pub(crate) fn setup_vm(prelude: bool) -> Result<RootedThread, Violation> {
    let vm = gluon::new_vm();
    {
        let mut db = vm.get_database_mut();
        db.set_implicit_prelude(prelude);
        db.set_run_io(true);
    }
    externs::install(&vm);
    vm.load_script("simtypes", gen::TYPES_MODULE)
        .map_err(|e| Violation::new("harness", format!("simtypes: {}", e)))?;
    let warm = format!(
        "{}let _ = import! std.io.prim\nlet _ = import! std.thread.prim\nlet _ = import! std.lazy.prim\nlet _ = import! std.st.reference.prim\n0\n",
        PRIM_PREAMBLE
    );
    vm.run_expr::<OpaqueValue<RootedThread, Hole>>("warmup", &warm)
        .map_err(|e| Violation::new("harness", format!("warmup: {}", e)))?;
    Ok(vm)
}

pub(crate) fn classify(e: &gluon::Error) -> String {
    use gluon::vm::Error as VmError;
    let kind = match e {
        gluon::Error::VM(VmError::OutOfMemory { .. }) => "vm:OutOfMemory".to_string(),
        gluon::Error::VM(VmError::StackOverflow(_)) => "vm:StackOverflow".to_string(),
        gluon::Error::VM(VmError::Interrupted) => "vm:Interrupted".to_string(),
        // a limit hit inside a primitive surfaces as the primitive's failure message
        gluon::Error::VM(VmError::Panic(msg, _)) if msg.starts_with("Thread is out of memory") => "vm:OutOfMemory".to_string(),
        gluon::Error::VM(VmError::Panic(msg, _)) if msg.starts_with("The stack has overflowed") => "vm:StackOverflow".to_string(),
        gluon::Error::VM(VmError::Panic(msg, _)) => format!("vm:Panic {}", msg.lines().next().unwrap_or("")),
        gluon::Error::VM(other) => {
            // limits hit below an IO action or a primitive are re-reported as text
            let msg = other.to_string();
            let first = msg.lines().next().unwrap_or("");
            if first.contains("Thread is out of memory") {
                "vm:OutOfMemory".to_string()
            } else if first.contains("The stack has overflowed") {
                "vm:StackOverflow".to_string()
            } else {
                format!("vm:{}", first)
            }
        }
        gluon::Error::Parse(_) => "parse".to_string(),
        gluon::Error::Typecheck(_) => "typecheck".to_string(),
        gluon::Error::Macro(_) => "macro".to_string(),
        other => format!("other:{}", other.to_string().lines().next().unwrap_or("")),
    };
    format!("ERR {}", kind)
}

pub(crate) fn outcome(r: gluon::Result<(OpaqueValue<RootedThread, Hole>, gluon::base::types::ArcType)>) -> String {
    match r {
        Ok((v, t)) => format!("OK {} : {}", render::render(v.get_variant()), t),
        Err(e) => classify(&e),
    }
}

impl Engine for C06 {
    fn id(&self) -> &'static str {
        "C06"
    }

    fn info(&self) -> EngineInfo {
        EngineInfo {
            rule: "one run = one long-lived VM executing a generated history of 3-10 evaluations: succeeding generated programs, failing programs (explicit error, index out of range, division by zero, integer overflow, failing host function, invalid string slice, recursive value bindings that the front end has to reject next to legal ones) buried under recursion depth / closures / partial and over-application / data construction, IO-typed programs with run_io (throw, catch, polymorphic results), and calls of exported std primitives (string, array, int, float, byte, char, prim) on boundary-value tuples, and functions that the host calls through Function::call with arguments that make some calls fail. While a step runs, the debug hook (CALL events) yields to the simulator at tape-chosen points where it injects: forced/explicit collections, interrupt, allocation failure (memory limit = allocated + delta), stack limit, cancellation (the evaluation future is dropped). Every step is mirrored on a brand new VM. Non-trivial = a step failed or a fault fired, and a later step ran on the same VM; distinct = distinct hash of (workload, decision tape).",
            real: vec!["parser/checker/compiler/VM, all std *.prim extern modules (vm/src/primitives.rs), api::function wrappers (extern \"C\"), error propagation and reset_stack in call_thunk_top/execute_io_top, io.catch/throw, debug hook, interrupt flag, memory/stack limits"],
            stubbed: vec!["executor (simulator polls the evaluation future, acts between polls)", "host = generated step list"],
            not_exercised: vec!["std.io file functions, std.fs, std.process, std.env, std.regex, std.random, std.http"],
            fault_kinds: vec!["hook (yield to the simulator at a CALL event)", "fault_collect", "fault_interrupt", "fault_oom", "fault_stack_limit", "fault_cancel", "gc (forced collection)", "failing program", "boundary primitive call"],
            assumptions: vec![
                "generated programs are pure expressions, so a fresh VM is the exact reference for every step",
                "after an injected fault the step may fail with the corresponding error or succeed with the fresh-VM result; later steps are compared at full strength",
                "the value stack is bounded (max_stack_size), therefore a stack that does not return to its level after an evaluation is reported: repeated often enough it turns a later evaluation into StackOverflow on this VM only",
            ],
            shrink: vec!["/steps"],
            quick: (6000, 150),
            thorough: (150000, 1100),
        }
    }

    fn generate(&self, rng: &mut Rng, _tier: &str) -> Value {
        let n = 3 + rng.below(8);
        let inject_run = rng.chance(1, 2);
        let mut steps = Vec::new();
        for _ in 0..n {
            let roll = rng.below(100);
            let (kind, prog) = if roll < 30 {
                ("ok", ok_program(rng))
            } else if roll < 55 {
                ("fail", failing_program(rng))
            } else if roll < 57 {
                ("fail", rec_value_program(rng))
            } else if roll < 61 {
                ("hostcall", hostcall_program(rng))
            } else if roll < 65 {
                ("io", io_program(rng))
            } else {
                ("prim", prim_program(rng))
            };
            let inject = inject_run && kind != "prim" && kind != "hostcall" && rng.chance(1, 2);
            steps.push(json!({ "kind": kind, "prog": prog, "inject": inject }));
        }
        json!({
            "prelude": rng.chance(1, 12),
            "gc": GcPolicy::generate(rng).to_json(),
            "hook_rate": *rng.pick(&[8u32, 32, 128, 512]),
            "steps": steps,
        })
    }

    fn run(&self, w: &Value) -> Result<(), Violation> {
        let prelude = w["prelude"].as_bool().unwrap_or(false);
        let vm = setup_vm(prelude)?;
        let hook_rate = w["hook_rate"].as_u64().unwrap_or(32) as u32;
        {
            let mut context = vm.context();
            context.set_hook(Some(Box::new(move |_, _| {
                let y = run::try_with(|s| {
                    if s.context.starts_with("inject") {
                        s.tape.flip("hook", hook_rate, 1024)
                    } else {
                        false
                    }
                })
                .unwrap_or(false);
                if y {
                    HOOK_YIELDED.store(true, Ordering::SeqCst);
                    Poll::Pending
                } else {
                    Poll::Ready(Ok(()))
                }
            })));
            context.set_hook_mask(HookFlags::CALL_FLAG);
        }
        run::set_gc(GcPolicy::from_json(&w["gc"]), false);
        let empty = Vec::new();
        let steps = w["steps"].as_array().unwrap_or(&empty);
        let mut failed_steps = 0;
        let mut faults_fired = 0u64;
        let mut log = Vec::new();
        for (i, step) in steps.iter().enumerate() {
            let src = step["prog"].as_str().unwrap_or("0");
            let kind = step["kind"].as_str().unwrap_or("ok");
            let inject = step["inject"].as_bool().unwrap_or(false);
            // reference: a brand new VM
            run::set_context(format!("reference VM, step {} ({})", i, kind));
            let expected = {
                let fresh = setup_vm(prelude)?;
                if kind == "hostcall" {
                    hostcall(&fresh, &format!("step{}", i), src)
                } else {
                    outcome(fresh.run_expr::<OpaqueValue<RootedThread, Hole>>(&format!("step{}", i), src))
                }
            };
            // the long lived VM
            vm.collect();
            let mem0 = vm.allocated_memory();
            let stack0 = vm.verif_stack_len();
            run::set_context(format!("{} step {} ({})", if inject { "inject" } else { "plain" }, i, kind));
            run::gc_active(true);
            let mut fault: Option<&'static str> = None;
            let mut cancelled = false;
            let step_name = format!("step{}", i);
            let actual = if kind == "hostcall" {
                run::count("host_calls_of_gluon_functions", 1);
                hostcall(&vm, &step_name, src)
            } else {
                let fut = vm.run_expr_async::<OpaqueValue<RootedThread, Hole>>(&step_name, src);
                let vm2 = vm.clone();
                let out = exec::drive_with(fut, 200_000, |_| {
                    if !HOOK_YIELDED.swap(false, Ordering::SeqCst) {
                        return exec::Next::Default;
                    }
                    // the evaluation is suspended at a CALL event and its context lock is free
                    let choice = if fault.is_some() {
                        run::decide("fault", 2, 1, 4)
                    } else {
                        run::decide("fault", 6, 1, 2)
                    };
                    match choice {
                        1 => {
                            run::count("fault_collect", 1);
                            vm2.collect();
                        }
                        2 => {
                            run::count("fault_interrupt", 1);
                            fault = Some("vm:Interrupted");
                            vm2.interrupt();
                        }
                        3 => {
                            run::count("fault_oom", 1);
                            fault = Some("vm:OutOfMemory");
                            let delta = 16 * run::choose("oom_delta", 32) as usize;
                            vm2.set_memory_limit(vm2.allocated_memory() + delta);
                        }
                        4 => {
                            run::count("fault_stack_limit", 1);
                            fault = Some("vm:StackOverflow");
                            let (len, _) = vm2.verif_stack_len();
                            let extra = run::choose("stack_delta", 24);
                            vm2.context().set_max_stack_size(len as u32 + extra);
                        }
                        5 if run::flip("cancel", 1, 3) => {
                            run::count("fault_cancel", 1);
                            fault = Some("cancelled");
                            return exec::Next::Cancel;
                        }
                        _ => {}
                    }
                    exec::Next::Poll
                });
                match out {
                    exec::Outcome::Ready(r, _) => outcome(r),
                    exec::Outcome::Cancelled => {
                        cancelled = true;
                        "CANCELLED".to_string()
                    }
                    exec::Outcome::Stuck(p) => format!("HANG after {} polls", p),
                    exec::Outcome::PollCap => "POLL-CAP".to_string(),
                }
            };
            run::gc_active(false);
            // lift the injected limits again
            vm.set_memory_limit(usize::MAX);
            vm.context().set_max_stack_size(u32::MAX);
            if fault.is_some() {
                faults_fired += 1;
            }
            log.push(format!("{}: {}", kind, clip(&actual)));
            if std::env::var("SIM_DEBUG").is_ok() {
                eprintln!("step {} {} inject={} fault={:?}\n  expected {}\n  actual   {}", i, kind, inject, fault, clip(&expected), clip(&actual));
            }
            // ---- oracle: outcome
            let acceptable = match fault {
                None => actual == expected,
                Some("cancelled") => cancelled || actual == expected,
                Some(err) => {
                    // a program that catches errors may catch the injected one: what its handler
                    // then computes (e.g. the length of the message) is right, and not predictable
                    // (never the VM's own "cannot unwind" error: that one is the recorded finding)
                    let catches = src.contains("io.catch") && !actual.contains("Attempted to exit scope above current");
                    if catches && actual != expected && actual != format!("ERR {}", err) {
                        run::count("outcome_unchecked_injected_error_caught_by_the_program", 1);
                    }
                    catches || actual == expected || actual == format!("ERR {}", err)
                }
            };
            if !acceptable {
                let what = match fault {
                    None => "which differs from a fresh VM".to_string(),
                    Some(f) => format!("which is neither the fresh VM result nor the injected `{}` error", f),
                };
                return Err(Violation::new(
                    "recovery",
                    format!(
                        "step ({}{}) on the long-lived VM gave `{}` {}: fresh=`{}` (step {}; earlier steps: {} failed, {} faults)",
                        kind, if inject { ", suspended by the debug hook" } else { "" }, clip(&actual), what, clip(&expected), i, failed_steps, faults_fired
                    ),
                ));
            }
            if actual.starts_with("HANG") || actual == "POLL-CAP" {
                return Err(Violation::new("hang", format!("step {} ({}): {}", i, kind, actual)));
            }
            // ---- oracle: stack and memory of the step can be reclaimed
            let failed = !actual.starts_with("OK");
            if failed {
                failed_steps += 1;
            }
            let stack1 = vm.verif_stack_len();
            if stack1 != stack0 {
                let how = if cancelled {
                    "after a cancelled evaluation"
                } else if failed {
                    "after a failed evaluation"
                } else {
                    "after a successful evaluation"
                };
                return Err(Violation::new(
                    "stack-not-restored",
                    format!(
                        "{} ({}): value stack (values, frames) was {:?} before step {} and is {:?} after it; outcome `{}`",
                        how, kind, stack0, i, stack1, clip(&actual)
                    ),
                ));
            }
            if failed {
                vm.collect();
                let mem1 = vm.allocated_memory();
                if mem1 != mem0 {
                    return Err(Violation::new(
                        "memory-not-reclaimed",
                        format!(
                            "after the failed step {} ({}) and a collection the thread accounts {} bytes, before the step {} (outcome `{}`)",
                            i, kind, mem1, mem0, clip(&actual)
                        ),
                    ));
                }
            }
        }
        let nontrivial = (failed_steps > 0 || faults_fired > 0) && steps.len() > 1;
        run::count("failed_steps", failed_steps);
        run::with(|s| {
            s.stats.nontrivial = nontrivial;
            s.stats.sample = Some(json!({ "steps": steps.iter().map(|s| json!({"kind": s["kind"], "inject": s["inject"], "prog": clip(s["prog"].as_str().unwrap_or(""))})).collect::<Vec<_>>(), "outcomes": log }));
        });
        // drop the hook (it owns nothing of the vm) before the vm
        vm.context().set_hook(None);
        drop(vm);
        Ok(())
    }
}

fn clip(s: &str) -> String {
    let s = s.trim_start_matches(PRIM_PREAMBLE).trim_start_matches(gen::PREAMBLE);
    if s.len() > 300 {
        let mut e = 300;
        while !s.is_char_boundary(e) {
            e -= 1;
        }
        format!("{}…", &s[..e])
    } else {
        s.to_string()
    }
}

/// Every exported primitive x every boundary tuple (enumeration, used by `sim primsweep`)
pub fn all_prim_programs() -> Vec<String> {
    fn values(kind: char) -> Vec<&'static str> {
        match kind {
            'i' => vec!["int.min_value", "int.max_value", "(0 #Int- 1)", "0", "1", "2", "63", "64", "65", "100", "(0 #Int- 64)", "4294967296", "1114111", "1114112", "55296", "255", "256", "36", "37", "257", "1024", "300"],
            'f' => vec!["0.0", "1.5", "(0.0 #Float- 1.5)", "(0.0 #Float/ 0.0)", "(1.0 #Float/ 0.0)", "((0.0 #Float- 1.0) #Float/ 0.0)", "1.0e308", "1.0e-320", "9.3e18", "0.5"],
            's' => {
                let mut v = vec!["\"\"", "\"a\"", "\"é\"", "\"日本語\"", "\"abc def\"", "\"  x  \"", "\"-1\"", "\"zz\"", "\"9223372036854775808\"", "\"1e999\""];
                for n in [255usize, 256, 1023] {
                    let lit: &'static str = Box::leak(format!("\"{}å日\"", "a".repeat(n)).into_boxed_str());
                    v.push(lit);
                }
                v
            }
            'c' => vec!["'a'", "'é'", "'日'", "'0'", "' '", "'z'"],
            'b' => vec!["0b", "1b", "7b", "8b", "9b", "255b", "128b"],
            'A' => vec!["[1]", "[1, 2, 3]", "(array.slice [1] 0 0)"],
            'S' => vec!["[\"a\"]", "[\"a\", \"\", \"日本\"]", "(array.slice [\"a\"] 1 1)"],
            'B' => vec!["[104b, 105b]", "[255b, 254b]", "[195b]", "(array.slice [1b] 0 0)"],
            _ => vec!["0"],
        }
    }
    let mut out = Vec::new();
    for (m, f, kinds) in PRIMS {
        let lists: Vec<Vec<&str>> = kinds.chars().map(values).collect();
        let mut idx = vec![0usize; lists.len()];
        loop {
            let args: Vec<&str> = idx.iter().zip(&lists).map(|(i, l)| l[*i]).collect();
            out.push(format!("{}{}.{} {}\n", PRIM_PREAMBLE, m, f, args.join(" ")));
            let mut k = 0;
            loop {
                if k == idx.len() {
                    break;
                }
                idx[k] += 1;
                if idx[k] < lists[k].len() {
                    break;
                }
                idx[k] = 0;
                k += 1;
            }
            if k == idx.len() {
                break;
            }
        }
    }
    out
}

pub fn primsweep(from: usize) -> i32 {
    let progs = all_prim_programs();
    let vm = match setup_vm(false) {
        Ok(vm) => vm,
        Err(v) => {
            println!("setup failed: {}", v.detail);
            return 2;
        }
    };
    println!("TOTAL {}", progs.len());
    for (i, p) in progs.iter().enumerate().skip(from) {
        let call = p.trim_start_matches(PRIM_PREAMBLE).trim();
        println!("RUN {} {}", i, call);
        use std::io::Write;
        let _ = std::io::stdout().flush();
        let r = std::panic::catch_unwind(std::panic::AssertUnwindSafe(|| {
            outcome(vm.run_expr::<OpaqueValue<RootedThread, Hole>>(&format!("p{}", i), p))
        }));
        match r {
            Ok(o) => println!("RES {} {}", i, clip(&o)),
            Err(_) => {
                println!("PANIC {} {}", i, crate::engine::take_panic().unwrap_or_default());
                return 3;
            }
        }
    }
    println!("DONE");
    0
}
