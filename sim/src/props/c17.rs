//! C17 — channels, references and lazy values keep their sequential contracts (`corosim`)
//!
//! The simulator is the scheduler of gluon coroutines: a generated main program resumes spawned
//! coroutines in a generated order; an executable model predicts every observation.
use std::collections::VecDeque;

use gluon::{
    vm::api::{Hole, OpaqueValue},
    RootedThread, ThreadExt,
};
use serde_json::{json, Value};

use crate::{
    engine::{Engine, EngineInfo},
    exec, externs,
    prng::Rng,
    run::{self, GcPolicy, Violation},
};

pub struct C17;

// ---------------------------------------------------------------------------------------------
// scripts

#[derive(Clone, Debug, PartialEq)]
enum Op {
    Send(usize, i64),
    Recv(usize),
    Load(usize),
    Store(usize, i64),
    Force(usize),
    Yield,
    Resume(usize),
}

impl Op {
    fn to_json(&self) -> Value {
        match *self {
            Op::Send(c, v) => json!(["send", c, v]),
            Op::Recv(c) => json!(["recv", c]),
            Op::Load(r) => json!(["load", r]),
            Op::Store(r, v) => json!(["store", r, v]),
            Op::Force(l) => json!(["force", l]),
            Op::Yield => json!(["yield"]),
            Op::Resume(t) => json!(["resume", t]),
        }
    }
    fn from_json(v: &Value) -> Option<Op> {
        let a = v.as_array()?;
        let k = a.get(0)?.as_str()?;
        let n = |i: usize| a.get(i).and_then(|x| x.as_i64()).unwrap_or(0);
        Some(match k {
            "send" => Op::Send(n(1) as usize, n(2)),
            "recv" => Op::Recv(n(1) as usize),
            "load" => Op::Load(n(1) as usize),
            "store" => Op::Store(n(1) as usize, n(2)),
            "force" => Op::Force(n(1) as usize),
            "yield" => Op::Yield,
            "resume" => Op::Resume(n(1) as usize),
            _ => return None,
        })
    }
}

#[derive(Clone, Debug, PartialEq)]
enum Thunk {
    Const(i64),
    YieldThen(i64),
    /// force lazy `.0` and add `.1`
    ForcePlus(usize, i64),
    Fail,
}

impl Thunk {
    fn to_json(&self) -> Value {
        match *self {
            Thunk::Const(v) => json!(["const", v]),
            Thunk::YieldThen(v) => json!(["yield", v]),
            Thunk::ForcePlus(l, k) => json!(["force", l, k]),
            Thunk::Fail => json!(["fail"]),
        }
    }
    fn from_json(v: &Value) -> Thunk {
        let a = v.as_array().cloned().unwrap_or_default();
        let n = |i: usize| a.get(i).and_then(|x| x.as_i64()).unwrap_or(0);
        match a.get(0).and_then(|k| k.as_str()).unwrap_or("") {
            "yield" => Thunk::YieldThen(n(1)),
            "force" => Thunk::ForcePlus(n(1) as usize, n(2)),
            "fail" => Thunk::Fail,
            _ => Thunk::Const(n(1)),
        }
    }
}

struct Spec {
    nch: usize,
    nref: usize,
    thunks: Vec<Thunk>,
    /// scripts[0] = main, scripts[1..] = coroutines
    scripts: Vec<Vec<Op>>,
}

impl Spec {
    fn from_json(w: &Value) -> Spec {
        let thunks: Vec<Thunk> = w["thunks"]
            .as_array()
            .map(|a| a.iter().map(Thunk::from_json).collect())
            .unwrap_or_default();
        let mut scripts = Vec::new();
        let parse = |v: &Value| -> Vec<Op> {
            v.as_array()
                .map(|a| a.iter().filter_map(Op::from_json).collect())
                .unwrap_or_default()
        };
        scripts.push(parse(&w["main"]));
        if let Some(cs) = w["coros"].as_array() {
            for c in cs {
                scripts.push(parse(c));
            }
        }
        let ncoro = scripts.len() - 1;
        let nch = (w["nch"].as_u64().unwrap_or(1) as usize).max(1);
        let nref = (w["nref"].as_u64().unwrap_or(1) as usize).max(1);
        let nl = thunks.len();
        // make every index valid whatever the minimiser did to the workload
        let thunks = thunks
            .into_iter()
            .map(|t| match t {
                Thunk::ForcePlus(l, k) if nl > 0 => Thunk::ForcePlus(l % nl, k),
                t => t,
            })
            .collect();
        for (ti, s) in scripts.iter_mut().enumerate() {
            s.retain(|op| match op {
                Op::Force(_) => nl > 0,
                Op::Resume(_) => ti == 0 && ncoro > 0,
                _ => true,
            });
            for op in s.iter_mut() {
                match op {
                    Op::Send(c, _) | Op::Recv(c) => *c %= nch,
                    Op::Load(r) | Op::Store(r, _) => *r %= nref,
                    Op::Force(l) => *l %= nl,
                    Op::Resume(t) => *t %= ncoro,
                    Op::Yield => {}
                }
            }
        }
        Spec {
            nch,
            nref,
            thunks,
            scripts,
        }
    }
}

fn tag(thread: usize, pc: usize) -> i64 {
    (thread * 1000 + pc) as i64
}

fn thunk_tag(l: usize) -> i64 {
    9000 + l as i64
}

// ---------------------------------------------------------------------------------------------
// executable model

#[derive(Clone, Debug, PartialEq)]
enum LazyState {
    Thunk,
    Evaluating(usize),
    Value(i64),
    Failed,
}

#[derive(Clone, Debug)]
enum Frame {
    Script { pc: usize },
    Thunk { l: usize, stage: u8 },
}

#[derive(Clone, Debug, PartialEq)]
enum Status {
    Ready,
    Suspended,
    Blocked(usize),
    Done,
    Failed,
}

#[derive(Clone, Debug, PartialEq)]
enum RunResult {
    Yielded,
    Blocked,
    Finished,
    Failed,
}

#[derive(Clone)]
struct ThreadM {
    frames: Vec<Frame>,
    status: Status,
    /// value returned by a thunk frame that just completed
    ret: Option<i64>,
}

#[derive(Clone)]
struct Model<'s> {
    spec: &'s Spec,
    chans: Vec<VecDeque<i64>>,
    refs: Vec<i64>,
    lazies: Vec<LazyState>,
    threads: Vec<ThreadM>,
    /// (tag, value, note)
    log: Vec<(i64, i64, &'static str)>,
    /// behaviour from here on is not specified by the property (e.g. resuming a failed thread)
    cut: bool,
    /// the main thread waits for a lazy evaluated by a suspended coroutine: program-level deadlock
    main_blocked: bool,
    /// probes
    cross_thread_waits: u64,
    failed_lazy_forces: u64,
    self_forces: u64,
}

enum ForceStart {
    Got(i64),
    Pushed,
    Err(&'static str),
    Block,
}

impl<'s> Model<'s> {
    fn new(spec: &'s Spec) -> Model<'s> {
        Model {
            spec,
            chans: vec![VecDeque::new(); spec.nch],
            refs: vec![0; spec.nref],
            lazies: vec![LazyState::Thunk; spec.thunks.len()],
            threads: (0..spec.scripts.len())
                .map(|_| ThreadM {
                    frames: vec![Frame::Script { pc: 0 }],
                    status: Status::Ready,
                    ret: None,
                })
                .collect(),
            log: Vec::new(),
            cut: false,
            main_blocked: false,
            cross_thread_waits: 0,
            failed_lazy_forces: 0,
            self_forces: 0,
        }
    }

    fn begin_force(&mut self, tid: usize, l: usize) -> ForceStart {
        match self.lazies[l].clone() {
            LazyState::Value(v) => ForceStart::Got(v),
            LazyState::Thunk => {
                self.lazies[l] = LazyState::Evaluating(tid);
                self.threads[tid].frames.push(Frame::Thunk { l, stage: 0 });
                ForceStart::Pushed
            }
            LazyState::Evaluating(owner) if owner == tid => {
                self.self_forces += 1;
                ForceStart::Err("self-dependent force")
            }
            LazyState::Evaluating(_) => {
                self.cross_thread_waits += 1;
                ForceStart::Block
            }
            LazyState::Failed => {
                self.failed_lazy_forces += 1;
                ForceStart::Err("force of a lazy whose computation failed")
            }
        }
    }

    /// An error is raised in thread `tid`: every lazy it is evaluating fails; the main thread
    /// catches the error at the script operation, a coroutine dies.
    fn raise(&mut self, tid: usize, note: &'static str) -> Option<RunResult> {
        loop {
            match self.threads[tid].frames.last().cloned() {
                Some(Frame::Thunk { l, .. }) => {
                    self.lazies[l] = LazyState::Failed;
                    self.threads[tid].frames.pop();
                }
                Some(Frame::Script { pc }) => {
                    if tid == 0 {
                        self.log.push((tag(0, pc), -2, note));
                        if let Some(Frame::Script { pc }) = self.threads[tid].frames.last_mut() {
                            *pc += 1;
                        }
                        return None;
                    } else {
                        self.threads[tid].status = Status::Failed;
                        return Some(RunResult::Failed);
                    }
                }
                None => return Some(RunResult::Failed),
            }
        }
    }

    fn run(&mut self, tid: usize) -> RunResult {
        self.threads[tid].status = Status::Ready;
        let mut fuel = 10_000;
        loop {
            fuel -= 1;
            if fuel == 0 || self.cut {
                self.cut = true;
                return RunResult::Yielded;
            }
            let top = self.threads[tid].frames.last().cloned();
            match top {
                None => return RunResult::Finished,
                Some(Frame::Script { pc }) => {
                    let script = &self.spec.scripts[tid];
                    if pc >= script.len() {
                        self.threads[tid].status = Status::Done;
                        return RunResult::Finished;
                    }
                    let op = script[pc].clone();
                    let t = tag(tid, pc);
                    let mut advance = true;
                    match op {
                        Op::Send(c, v) => self.chans[c].push_back(v),
                        Op::Recv(c) => {
                            let v = self.chans[c].pop_front();
                            self.log.push((t, v.unwrap_or(-1), if v.is_some() { "recv" } else { "recv on empty channel" }));
                        }
                        Op::Load(r) => self.log.push((t, self.refs[r], "load")),
                        Op::Store(r, v) => self.refs[r] = v,
                        Op::Yield => {
                            if tid != 0 {
                                self.set_pc(tid, pc + 1);
                                self.threads[tid].status = Status::Suspended;
                                return RunResult::Yielded;
                            }
                        }
                        Op::Resume(c) => {
                            let target = c + 1;
                            let r = match self.threads[target].status {
                                Status::Done => -1,
                                Status::Failed => {
                                    // resuming a thread that died with an error: not specified
                                    self.cut = true;
                                    return RunResult::Yielded;
                                }
                                _ => match self.run(target) {
                                    RunResult::Failed => -1,
                                    _ => 0,
                                },
                            };
                            if self.cut {
                                return RunResult::Yielded;
                            }
                            self.log.push((t, r, "resume"));
                        }
                        Op::Force(l) => {
                            if let Some(v) = self.threads[tid].ret.take() {
                                self.log.push((t, v, "force"));
                            } else {
                                match self.begin_force(tid, l) {
                                    ForceStart::Got(v) => self.log.push((t, v, "force of an evaluated lazy")),
                                    ForceStart::Pushed => advance = false,
                                    ForceStart::Err(note) => {
                                        advance = false;
                                        if let Some(r) = self.raise(tid, note) {
                                            return r;
                                        }
                                    }
                                    ForceStart::Block => {
                                        if tid == 0 {
                                            self.main_blocked = true;
                                            self.cut = true;
                                            return RunResult::Blocked;
                                        }
                                        self.threads[tid].status = Status::Blocked(l);
                                        return RunResult::Blocked;
                                    }
                                }
                            }
                        }
                    }
                    if advance {
                        self.set_pc(tid, pc + 1);
                    }
                }
                Some(Frame::Thunk { l, stage }) => {
                    let thunk = self.spec.thunks[l].clone();
                    let done = |m: &mut Model, v: i64| {
                        m.log.push((thunk_tag(l), v, "thunk body"));
                        m.lazies[l] = LazyState::Value(v);
                        m.threads[tid].frames.pop();
                        m.threads[tid].ret = Some(v);
                        // a thunk frame below consumes the value itself
                    };
                    match thunk {
                        Thunk::Const(v) => done(self, v),
                        Thunk::YieldThen(v) => {
                            // a yield below an async extern function (`force`) does not suspend the
                            // coroutine: `call_async` polls the nested `Execute` future right away
                            let _ = stage;
                            done(self, v)
                        }
                        Thunk::Fail => {
                            if let Some(r) = self.raise(tid, "thunk failed") {
                                return r;
                            }
                        }
                        Thunk::ForcePlus(m, k) => {
                            if let Some(v) = self.threads[tid].ret.take() {
                                done(self, v + k)
                            } else {
                                match self.begin_force(tid, m) {
                                    ForceStart::Got(v) => done(self, v + k),
                                    ForceStart::Pushed => {}
                                    ForceStart::Err(note) => {
                                        if let Some(r) = self.raise(tid, note) {
                                            return r;
                                        }
                                    }
                                    ForceStart::Block => {
                                        if tid == 0 {
                                            self.main_blocked = true;
                                            self.cut = true;
                                            return RunResult::Blocked;
                                        }
                                        self.threads[tid].status = Status::Blocked(m);
                                        return RunResult::Blocked;
                                    }
                                }
                            }
                        }
                    }
                }
            }
        }
    }

    fn set_pc(&mut self, tid: usize, new_pc: usize) {
        for f in self.threads[tid].frames.iter_mut().rev() {
            if let Frame::Script { pc } = f {
                *pc = new_pc;
                return;
            }
        }
    }

}

// ---------------------------------------------------------------------------------------------
// gluon program

fn thunk_body(l: usize, t: &Thunk) -> String {
    match *t {
        Thunk::Const(v) => format!("sim.obs {} {}", thunk_tag(l), v),
        Thunk::YieldThen(v) => format!("(let y = th.yield () in sim.obs {} {})", thunk_tag(l), v),
        Thunk::ForcePlus(m, k) => format!(
            "sim.obs {} ((lz.force (st.load cell{})) #Int+ {})",
            thunk_tag(l),
            m,
            k
        ),
        Thunk::Fail => "sim.fail \"boom\"".to_string(),
    }
}

fn script_expr(spec: &Spec, tid: usize, end: &str) -> String {
    let mut open = String::new();
    let mut close = String::new();
    for (pc, op) in spec.scripts[tid].iter().enumerate() {
        let t = tag(tid, pc);
        match *op {
            Op::Send(c, v) => {
                open.push_str("io.flat_map (\\x -> ");
                close.insert_str(0, &format!(") (ch.send s{} {})", c, v));
            }
            Op::Recv(c) => {
                open.push_str(&format!("io.flat_map (\\x -> let o = sim.obs {} (unres x) in ", t));
                close.insert_str(0, &format!(") (ch.recv q{})", c));
            }
            Op::Load(r) => {
                open.push_str(&format!("io.flat_map (\\x -> let o = sim.obs {} x in ", t));
                close.insert_str(0, &format!(") (rf.load r{})", r));
            }
            Op::Store(r, v) => {
                open.push_str("io.flat_map (\\x -> ");
                close.insert_str(0, &format!(") (rf.(<-) r{} {})", r, v));
            }
            Op::Yield => {
                open.push_str("(let y = th.yield () in ");
                close.insert_str(0, ")");
            }
            Op::Resume(c) => {
                open.push_str(&format!("io.flat_map (\\x -> let o = sim.obs {} (unres2 x) in ", t));
                close.insert_str(
                    0,
                    &format!(") (io.catch (th.resume t{}) (\\err -> io.wrap (Err err)))", c),
                );
            }
            Op::Force(l) => {
                let action = format!(
                    "io.flat_map (\\u -> io.wrap (sim.obs {} (lz.force l{}))) (io.wrap ())",
                    t, l
                );
                open.push_str("io.flat_map (\\x -> ");
                if tid == 0 {
                    close.insert_str(
                        0,
                        &format!(
                            ") (io.catch ({}) (\\err -> io.wrap (sim.obs {} (0 #Int- 2))))",
                            action, t
                        ),
                    );
                } else {
                    close.insert_str(0, &format!(") ({})", action));
                }
            }
        }
    }
    // IO actions are built eagerly: everything (a leading `yield` in particular) must sit under a
    // lambda to run when the action runs, not when it is constructed
    format!("io.flat_map (\\u -> {}{}{}) (io.wrap ())", open, end, close)
}

fn program(spec: &Spec) -> String {
    let mut s = String::new();
    s.push_str("let io = import! std.io.prim\nlet ch = import! std.channel.prim\nlet rf = import! std.reference.prim\nlet st = import! std.st.reference.prim\nlet lz = import! std.lazy.prim\nlet th = import! std.thread.prim\nlet sim = import! sim\nlet { Result } = import! std.types\n");
    s.push_str("let unres x =\n    match x with\n    | Ok v -> v\n    | Err e -> 0 #Int- 1\n");
    s.push_str("let unres2 x =\n    match x with\n    | Ok v -> 0\n    | Err e -> 0 #Int- 1\n");
    s.push_str("let dummy = lz.lazy (\\u -> 0)\n");
    for l in 0..spec.thunks.len() {
        s.push_str(&format!("let cell{} = st.ref dummy\n", l));
    }
    for (l, t) in spec.thunks.iter().enumerate() {
        s.push_str(&format!("let l{} = lz.lazy (\\u -> {})\n", l, thunk_body(l, t)));
        s.push_str(&format!("let u{} = st.(<-) cell{} l{}\n", l, l, l));
    }
    // main expression
    let mut open = String::new();
    let mut close = String::new();
    for c in 0..spec.nch {
        open.push_str(&format!(
            "io.flat_map (\\p{c} -> let s{c} = p{c}.sender in let q{c} = p{c}.receiver in ",
            c = c
        ));
        close.insert_str(0, ") (ch.channel 0)");
    }
    for r in 0..spec.nref {
        open.push_str(&format!("io.flat_map (\\r{} -> ", r));
        close.insert_str(0, ") (rf.ref 0)");
    }
    for t in 1..spec.scripts.len() {
        open.push_str(&format!("io.flat_map (\\t{} -> ", t - 1));
        close.insert_str(0, &format!(") (th.spawn ({}))", script_expr(spec, t, "io.wrap ()")));
    }
    s.push_str(&open);
    s.push_str(&script_expr(spec, 0, "io.wrap 0"));
    s.push_str(&close);
    s.push('\n');
    s
}

// ---------------------------------------------------------------------------------------------

fn gen_script(rng: &mut Rng, tid: usize, len: usize, spec_nch: usize, spec_nref: usize, nl: usize, next_val: &mut i64) -> Vec<Op> {
    let mut ops = Vec::new();
    for _ in 0..len {
        let roll = rng.below(100);
        let op = if roll < 25 {
            *next_val += 1;
            Op::Send(rng.below(spec_nch), *next_val)
        } else if roll < 45 {
            Op::Recv(rng.below(spec_nch))
        } else if roll < 55 {
            Op::Load(rng.below(spec_nref))
        } else if roll < 65 {
            *next_val += 1;
            Op::Store(rng.below(spec_nref), *next_val)
        } else if roll < 82 && nl > 0 {
            Op::Force(rng.below(nl))
        } else if tid != 0 {
            Op::Yield
        } else {
            Op::Recv(rng.below(spec_nch))
        };
        ops.push(op);
    }
    ops
}

impl Engine for C17 {
    fn id(&self) -> &'static str {
        "C17"
    }

    fn info(&self) -> EngineInfo {
        EngineInfo {
            rule: "one run = a generated gluon main program that creates 1-2 channels, 1-2 references, 0-3 lazy values (thunk bodies: constant, yield-then-constant, force another lazy (incl. itself), fail) and spawns 0-3 coroutines with generated straight-line bodies over {send, recv, load, store, force, yield}; the main script interleaves its own operations with `resume t_i` in a generated order (the schedule). (One run in ten is of class `cells` instead: std.reference / std.st.reference cells holding field-less constructors, constructors with fields or booleans, a generated sequence of stores and loads, model = last stored value.) Every observation is reported through the harness extern `sim.obs` and compared, in order, with the log predicted by an executable model (FIFO queues, cells, Thunk|Evaluating(owner)|Value|Failed lazies, Ready|Suspended|Blocked|Done|Failed coroutines). Forced collections perturb the run. The main future is polled by the simulator's executor: pending with no wake-up requested = hang. Non-trivial = at least one resume and at least 4 observations; distinct = distinct workload hash.",
            real: vec!["std.channel/std.reference/std.lazy/std.thread primitives (vm/src/channel.rs, reference.rs, lazy.rs), coroutine spawn/resume/yield, Thread::resume, async extern functions and their poll_fns, io.catch, the interpreter"],
            stubbed: vec!["executor (simulator polls the main future itself; wake-ups are a flag)", "the scheduler of coroutines is the generated main script"],
            not_exercised: vec!["spawn_on / join (tokio-less child OS tasks are covered by C14)", "std.thread.sleep"],
            fault_kinds: vec!["gc (forced collection)", "thunk_fail (a lazy computation fails)", "self_force (self-dependent lazy)", "cross_thread_wait (force of a lazy being evaluated by another coroutine)", "resume_dead (resume of a finished coroutine)", "recv_empty"],
            assumptions: vec![
                "behaviour after resuming a coroutine that died with an error, and a main thread that waits for a lazy held by a suspended coroutine (program-level deadlock), are not specified by the property: the generator avoids them and the model stops comparing there",
            ],
            shrink: vec!["/main", "/coros/0", "/coros/1", "/coros/2", "/threads/0", "/threads/1", "/threads/2", "/threads/3"],
            quick: (24000, 150),
            thorough: (300000, 1100),
        }
    }

    fn generate(&self, rng: &mut Rng, _tier: &str) -> Value {
        if rng.chance(2, 5) {
            return crate::props::c17b::generate(rng);
        }
        if rng.chance(1, 6) {
            return crate::props::c17c::generate(rng);
        }
        let nch = 1 + rng.below(2);
        let nref = 1 + rng.below(2);
        let nl = rng.below(4);
        let ncoro = *rng.pick(&[0usize, 1, 1, 2, 2, 3]);
        let mut thunks = Vec::new();
        for l in 0..nl {
            let t = match rng.below(10) {
                0 | 1 | 2 => Thunk::Const(500 + l as i64),
                3 | 4 => Thunk::YieldThen(600 + l as i64),
                5 | 6 => Thunk::ForcePlus(rng.below(nl), 10 * (l as i64 + 1)),
                7 => Thunk::ForcePlus(l, 1),
                _ => Thunk::Fail,
            };
            thunks.push(t);
        }
        let mut next_val = 0;
        let mut scripts = vec![Vec::new()];
        for t in 0..ncoro {
            let len = rng.below(9);
            scripts.push(gen_script(rng, t + 1, len, nch, nref, nl, &mut next_val));
        }
        // main script: model guided
        let main_len = 2 + rng.below(14);
        let candidates = gen_script(rng, 0, main_len * 3, nch, nref, nl, &mut next_val);
        let mut cand_iter = candidates.into_iter();
        let mut main: Vec<Op> = Vec::new();
        for _ in 0..main_len {
            let mut chosen = None;
            for _attempt in 0..6 {
                let op = if ncoro > 0 && rng.chance(2, 5) {
                    Op::Resume(rng.below(ncoro))
                } else {
                    match cand_iter.next() {
                        Some(op) => op,
                        None => break,
                    }
                };
                // try it on the model
                let mut trial = main.clone();
                trial.push(op.clone());
                let mut sc = scripts.clone();
                sc[0] = trial;
                let spec = Spec {
                    nch,
                    nref,
                    thunks: thunks.clone(),
                    scripts: sc,
                };
                let mut m = Model::new(&spec);
                m.run(0);
                if !m.cut && !m.main_blocked {
                    chosen = Some(op);
                    break;
                }
            }
            match chosen {
                Some(op) => main.push(op),
                None => break,
            }
        }
        scripts[0] = main;
        json!({
            "gc": GcPolicy::generate(rng).to_json(),
            "nch": nch,
            "nref": nref,
            "thunks": thunks.iter().map(|t| t.to_json()).collect::<Vec<_>>(),
            "coros": scripts[1..].iter().map(|s| s.iter().map(|o| o.to_json()).collect::<Vec<_>>()).collect::<Vec<_>>(),
            "main": scripts[0].iter().map(|o| o.to_json()).collect::<Vec<_>>(),
        })
    }

    fn run(&self, w: &Value) -> Result<(), Violation> {
        if w["class"].as_str() == Some("threads") {
            return crate::props::c17b::run(w);
        }
        if w["class"].as_str() == Some("cells") {
            return crate::props::c17c::run(w);
        }
        let spec = Spec::from_json(w);
        let mut model = Model::new(&spec);
        model.run(0);
        run::count("model_cut", model.cut as u64);
        run::count("cross_thread_wait", model.cross_thread_waits);
        run::count("failed_lazy_force", model.failed_lazy_forces);
        run::count("self_force", model.self_forces);
        let expected: Vec<String> = model.log.iter().map(|(t, v, _)| format!("{} {}", t, v)).collect();
        run::count("thunk_fail", model.lazies.iter().filter(|l| **l == LazyState::Failed).count() as u64);
        run::count("recv_empty", model.log.iter().filter(|e| e.2 == "recv on empty channel").count() as u64);
        run::count("resume_dead", model.log.iter().filter(|e| e.2 == "resume" && e.1 == -1).count() as u64);

        let src = program(&spec);
        let vm = gluon::new_vm();
        {
            let mut db = vm.get_database_mut();
            db.set_implicit_prelude(false);
            db.set_run_io(true);
            // the observation calls `let o = sim.obs ..` have unused results; the optimiser drops
            // some of them (dead code elimination of a host call is C04's subject, not this one's)
            db.set_optimize(false);
        }
        externs::install(&vm);
        run::set_gc(GcPolicy::from_json(&w["gc"]), true);
        run::set_context("coroutine program");
        let outcome = {
            let fut = vm.run_expr_async::<OpaqueValue<RootedThread, Hole>>("coro", &src);
            exec::drive(fut, 100_000, |_| {})
        };
        run::gc_active(false);
        let actual: Vec<String> = run::with(|s| s.obs.clone());
        let end = match outcome {
            exec::Outcome::Ready(Ok(_), polls) => {
                run::count("polls", polls);
                "finished".to_string()
            }
            exec::Outcome::Ready(Err(e), _) => {
                let msg = e.to_string();
                if !matches!(e, gluon::Error::VM(_)) {
                    return Err(Violation::new(
                        "harness",
                        format!("generated program rejected: {}", msg.lines().take(4).collect::<Vec<_>>().join(" / ")),
                    ));
                }
                format!("error: {}", msg.lines().next().unwrap_or(""))
            }
            exec::Outcome::Stuck(polls) => format!("HANG (pending after {} polls, no wake-up requested)", polls),
            exec::Outcome::PollCap => "POLL-CAP".to_string(),
            exec::Outcome::Cancelled => "CANCELLED".to_string(),
        };
        if std::env::var("SIM_DEBUG").is_ok() {
            eprintln!("{}\nmain {:?}\ncoros {:?}\nthunks {:?}\nexpected {:?}\nactual   {:?}\nend {}", src, spec.scripts[0], &spec.scripts[1..], spec.thunks, expected, actual, end);
        }
        // compare the observation logs operation by operation
        let n = expected.len().min(actual.len());
        for i in 0..n {
            if expected[i] != actual[i] {
                let note = model.log[i].2;
                return Err(Violation::new(
                    "contract",
                    format!(
                        "observation {} ({}): model expects `{}` but gluon reported `{}` (program ended: {})",
                        i, note, expected[i], actual[i], end
                    ),
                ));
            }
        }
        if model.cut {
            // nothing is specified after the cut: only the common prefix was compared
            if actual.len() < expected.len() {
                return Err(Violation::new(
                    "contract",
                    format!("gluon stopped after {} observations, the model specifies at least {} ({}; program ended: {})", actual.len(), expected.len(), model.log[actual.len()].2, end),
                ));
            }
            return Ok(());
        }
        if actual.len() < expected.len() {
            let (t, v, note) = model.log[actual.len()];
            let oracle = if end.starts_with("HANG") { "hang" } else { "contract" };
            return Err(Violation::new(
                oracle,
                format!(
                    "{}: observation `{} {}` never happened, program ended: {}",
                    note, t, v, end
                ),
            ));
        }
        if actual.len() > expected.len() {
            return Err(Violation::new(
                "contract",
                format!("unexpected extra observation `{}` (program ended: {})", actual[expected.len()], end),
            ));
        }
        if end != "finished" {
            let oracle = if end.starts_with("HANG") { "hang" } else { "contract" };
            return Err(Violation::new(
                oracle,
                format!("all observations matched but the program ended: {}", end),
            ));
        }
        let resumes = spec.scripts[0].iter().filter(|o| matches!(o, Op::Resume(_))).count();
        run::with(|s| {
            s.stats.nontrivial = resumes > 0 && expected.len() >= 4;
            s.stats.sample = Some(json!({ "main": w["main"], "coros": w["coros"], "thunks": w["thunks"], "log": expected }));
        });
        drop(vm);
        Ok(())
    }
}
