//! C17, second run class: several gluon threads of one VM, each running a program, polled by the
//! simulated host in tape order; lazy thunks may wait for host events (`sim.wait k`) that the
//! simulator fires in tape order. This is how "force from any thread while another thread is in
//! the middle of the computation" is reached deterministically.
use std::{
    collections::BTreeSet,
    future::Future,
    pin::Pin,
    sync::Arc,
    task::{Context, Poll, Wake, Waker},
};

use gluon::{
    vm::api::{Hole, OpaqueValue},
    RootedThread, ThreadExt,
};
use serde_json::{json, Value};

use crate::{
    externs,
    prng::Rng,
    run::{self, GcPolicy, Violation},
};

#[derive(Clone, Debug, PartialEq)]
enum Thunk {
    Const(i64),
    WaitThen(i64, i64),
    ForcePlus(usize, i64),
    Fail,
    WaitThenFail(i64),
}

#[derive(Clone, Debug, PartialEq)]
enum Op {
    Force(usize),
    Load(usize),
    Store(usize, i64),
}

fn thunk_json(t: &Thunk) -> Value {
    match *t {
        Thunk::Const(v) => json!(["const", v]),
        Thunk::WaitThen(k, v) => json!(["wait", k, v]),
        Thunk::ForcePlus(m, a) => json!(["force", m, a]),
        Thunk::Fail => json!(["fail"]),
        Thunk::WaitThenFail(k) => json!(["waitfail", k]),
    }
}

fn thunk_from(v: &Value, l: usize) -> Thunk {
    let a = v.as_array().cloned().unwrap_or_default();
    let n = |i: usize| a.get(i).and_then(|x| x.as_i64()).unwrap_or(0);
    match a.get(0).and_then(|k| k.as_str()).unwrap_or("") {
        "wait" => Thunk::WaitThen(n(1), n(2)),
        "force" if l > 0 => Thunk::ForcePlus((n(1) as usize) % l, n(2)),
        "fail" => Thunk::Fail,
        "waitfail" => Thunk::WaitThenFail(n(1)),
        _ => Thunk::Const(n(1)),
    }
}

fn op_json(o: &Op) -> Value {
    match *o {
        Op::Force(l) => json!(["force", l]),
        Op::Load(r) => json!(["load", r]),
        Op::Store(r, v) => json!(["store", r, v]),
    }
}

struct Spec {
    thunks: Vec<Thunk>,
    nref: usize,
    scripts: Vec<Vec<Op>>,
}

fn spec_from(w: &Value) -> Spec {
    let thunks: Vec<Thunk> = w["thunks"]
        .as_array()
        .map(|a| a.iter().enumerate().map(|(l, t)| thunk_from(t, l)).collect())
        .unwrap_or_default();
    let nl = thunks.len();
    let nref = (w["nref"].as_u64().unwrap_or(1) as usize).max(1);
    let scripts = w["threads"]
        .as_array()
        .map(|ts| {
            ts.iter()
                .map(|s| {
                    s.as_array()
                        .map(|ops| {
                            ops.iter()
                                .filter_map(|o| {
                                    let a = o.as_array()?;
                                    let n = |i: usize| a.get(i).and_then(|x| x.as_i64()).unwrap_or(0);
                                    match a.get(0)?.as_str()? {
                                        "force" if nl > 0 => Some(Op::Force(n(1) as usize % nl)),
                                        "load" => Some(Op::Load(n(1) as usize % nref)),
                                        "store" => Some(Op::Store(n(1) as usize % nref, n(2))),
                                        _ => None,
                                    }
                                })
                                .collect()
                        })
                        .unwrap_or_default()
                })
                .collect()
        })
        .unwrap_or_default();
    Spec { thunks, nref, scripts }
}

fn events(spec: &Spec) -> Vec<i64> {
    let mut s = BTreeSet::new();
    for t in &spec.thunks {
        match t {
            Thunk::WaitThen(k, _) | Thunk::WaitThenFail(k) => {
                s.insert(*k);
            }
            _ => {}
        }
    }
    s.into_iter().collect()
}

fn tag(t: usize, pc: usize) -> i64 {
    ((t + 1) * 1000 + pc) as i64
}

// ---------------------------------------------------------------------------------------------
// model

#[derive(Clone, Debug, PartialEq)]
enum LazyState {
    Thunk,
    Evaluating(usize),
    Value(i64),
    Failed,
}

#[derive(Clone, Debug)]
enum Frame {
    Script(usize),
    Thunk(usize),
}

#[derive(Clone, Debug, PartialEq)]
enum Status {
    Ready,
    Done,
    Failed,
}

struct Model<'s> {
    spec: &'s Spec,
    lazies: Vec<LazyState>,
    refs: Vec<i64>,
    fired: BTreeSet<i64>,
    frames: Vec<Vec<Frame>>,
    ret: Vec<Option<i64>>,
    status: Vec<Status>,
    log: Vec<(i64, i64, &'static str)>,
    cross_waits: u64,
    failed_forces: u64,
}

impl<'s> Model<'s> {
    fn new(spec: &'s Spec) -> Self {
        let n = spec.scripts.len();
        Model {
            spec,
            lazies: vec![LazyState::Thunk; spec.thunks.len()],
            refs: vec![0; spec.nref],
            fired: BTreeSet::new(),
            frames: vec![vec![Frame::Script(0)]; n],
            ret: vec![None; n],
            status: vec![Status::Ready; n],
            log: Vec::new(),
            cross_waits: 0,
            failed_forces: 0,
        }
    }

    fn raise(&mut self, t: usize) {
        while let Some(Frame::Thunk(l)) = self.frames[t].last().cloned() {
            self.lazies[l] = LazyState::Failed;
            self.frames[t].pop();
        }
        self.status[t] = Status::Failed;
    }

    /// Some(v): value available; None: blocked or a frame was pushed or the thread failed
    fn force(&mut self, t: usize, l: usize) -> Result<Option<i64>, bool> {
        match self.lazies[l].clone() {
            LazyState::Value(v) => Ok(Some(v)),
            LazyState::Thunk => {
                self.lazies[l] = LazyState::Evaluating(t);
                self.frames[t].push(Frame::Thunk(l));
                Ok(None)
            }
            LazyState::Evaluating(o) if o == t => {
                self.raise(t);
                Err(false)
            }
            LazyState::Evaluating(_) => {
                self.cross_waits += 1;
                Err(true)
            }
            LazyState::Failed => {
                self.failed_forces += 1;
                self.raise(t);
                Err(false)
            }
        }
    }

    /// Polls thread `t`: runs it until it finishes, fails or blocks
    fn poll(&mut self, t: usize) {
        if self.status[t] != Status::Ready {
            return;
        }
        let mut fuel = 10_000;
        loop {
            fuel -= 1;
            if fuel == 0 {
                return;
            }
            match self.frames[t].last().cloned() {
                None => return,
                Some(Frame::Script(pc)) => {
                    let script = &self.spec.scripts[t];
                    if pc >= script.len() {
                        self.status[t] = Status::Done;
                        return;
                    }
                    let tg = tag(t, pc);
                    let mut advance = true;
                    match script[pc].clone() {
                        Op::Load(r) => self.log.push((tg, self.refs[r], "load")),
                        Op::Store(r, v) => self.refs[r] = v,
                        Op::Force(l) => {
                            if let Some(v) = self.ret[t].take() {
                                self.log.push((tg, v, "force"));
                            } else {
                                match self.force(t, l) {
                                    Ok(Some(v)) => self.log.push((tg, v, "force of an evaluated lazy")),
                                    Ok(None) => advance = false,
                                    Err(true) => return, // blocked on another thread's evaluation
                                    Err(false) => return, // failed
                                }
                            }
                        }
                    }
                    if advance {
                        if let Some(Frame::Script(p)) = self.frames[t].first_mut() {
                            *p = pc + 1;
                        }
                    }
                }
                Some(Frame::Thunk(l)) => {
                    let done = |m: &mut Model, v: i64| {
                        m.log.push((9000 + l as i64, v, "thunk body"));
                        m.lazies[l] = LazyState::Value(v);
                        m.frames[t].pop();
                        m.ret[t] = Some(v);
                    };
                    match self.spec.thunks[l].clone() {
                        Thunk::Const(v) => done(self, v),
                        Thunk::WaitThen(k, v) => {
                            if self.fired.contains(&k) {
                                done(self, v)
                            } else {
                                return;
                            }
                        }
                        Thunk::WaitThenFail(k) => {
                            if self.fired.contains(&k) {
                                self.raise(t);
                            }
                            return;
                        }
                        Thunk::Fail => {
                            self.raise(t);
                            return;
                        }
                        Thunk::ForcePlus(m, a) => {
                            if let Some(v) = self.ret[t].take() {
                                done(self, v + a)
                            } else {
                                match self.force(t, m) {
                                    Ok(Some(v)) => done(self, v + a),
                                    Ok(None) => {}
                                    Err(_) => return,
                                }
                            }
                        }
                    }
                }
            }
        }
    }

    fn finished(&self) -> bool {
        self.status.iter().all(|s| *s != Status::Ready)
    }
}

// ---------------------------------------------------------------------------------------------
// programs

fn shared_module(spec: &Spec) -> String {
    let mut s = String::from("let sim = import! sim\nlet lz = import! std.lazy.prim\nlet st = import! std.st.reference.prim\n");
    let mut fields = Vec::new();
    for (l, t) in spec.thunks.iter().enumerate() {
        let body = match *t {
            Thunk::Const(v) => format!("sim.obs {} {}", 9000 + l, v),
            Thunk::WaitThen(k, v) => format!("sim.obs {} ({} #Int+ ((sim.wait {}) #Int- {}))", 9000 + l, v, k, k),
            Thunk::ForcePlus(m, a) => format!("sim.obs {} ((lz.force l{}) #Int+ {})", 9000 + l, m, a),
            Thunk::Fail => "sim.fail \"boom\"".to_string(),
            Thunk::WaitThenFail(k) => format!("sim.fail (if (sim.wait {}) #Int< 0 then \"early\" else \"late\")", k),
        };
        s.push_str(&format!("let l{} = lz.lazy (\\u -> {})\n", l, body));
        fields.push(format!("l{} = l{}", l, l));
    }
    for r in 0..spec.nref {
        s.push_str(&format!("let r{} = st.ref 0\n", r));
        fields.push(format!("r{} = r{}", r, r));
    }
    s.push_str(&format!("{{ {} }}\n", fields.join(", ")));
    s
}

fn thread_program(spec: &Spec, t: usize) -> String {
    let mut s = String::from("let sim = import! sim\nlet lz = import! std.lazy.prim\nlet st = import! std.st.reference.prim\nlet sh = import! shared\n");
    let mut open = String::new();
    let mut close = String::new();
    let mut used = vec!["0".to_string()];
    for (pc, op) in spec.scripts[t].iter().enumerate() {
        let tg = tag(t, pc);
        match *op {
            Op::Force(l) => {
                open.push_str(&format!("(let o{} = sim.obs {} (lz.force sh.l{}) in ", pc, tg, l));
                used.push(format!("o{}", pc));
            }
            Op::Load(r) => {
                open.push_str(&format!("(let o{} = sim.obs {} (st.load sh.r{}) in ", pc, tg, r));
                used.push(format!("o{}", pc));
            }
            Op::Store(r, v) => {
                open.push_str(&format!("(let u{} = st.(<-) sh.r{} {} in ", pc, r, v));
            }
        }
        close.push(')');
    }
    let sum = used.join(" #Int+ ");
    s.push_str(&format!("{}({}){}\n", open, sum, close));
    s
}

// ---------------------------------------------------------------------------------------------

pub fn generate(rng: &mut Rng) -> Value {
    let nl = 1 + rng.below(4);
    let mut next_event = 0;
    let mut thunks = Vec::new();
    for l in 0..nl {
        let t = match rng.below(10) {
            0 | 1 => Thunk::Const(500 + l as i64),
            2 | 3 | 4 | 5 => {
                next_event += 1;
                Thunk::WaitThen(next_event, 600 + l as i64)
            }
            6 | 7 if l > 0 => Thunk::ForcePlus(rng.below(l), 10 * (l as i64 + 1)),
            8 => {
                next_event += 1;
                Thunk::WaitThenFail(next_event)
            }
            9 => Thunk::Fail,
            _ => Thunk::Const(500 + l as i64),
        };
        thunks.push(t);
    }
    let nref = 1 + rng.below(2);
    let nthreads = 2 + rng.below(3);
    let mut val = 0;
    let mut threads = Vec::new();
    for _ in 0..nthreads {
        let n = 1 + rng.below(6);
        let mut ops = Vec::new();
        for _ in 0..n {
            let roll = rng.below(10);
            ops.push(if roll < 6 {
                Op::Force(rng.below(nl))
            } else if roll < 8 {
                Op::Load(rng.below(nref))
            } else {
                val += 1;
                Op::Store(rng.below(nref), val)
            });
        }
        threads.push(ops);
    }
    json!({
        "class": "threads",
        "gc": GcPolicy::generate(rng).to_json(),
        "thunks": thunks.iter().map(thunk_json).collect::<Vec<_>>(),
        "nref": nref,
        "threads": threads.iter().map(|t| t.iter().map(op_json).collect::<Vec<_>>()).collect::<Vec<_>>(),
        "budget": 10 + rng.below(40),
    })
}

struct Flag(std::sync::atomic::AtomicBool);
impl Wake for Flag {
    fn wake(self: Arc<Self>) {
        self.0.store(true, std::sync::atomic::Ordering::SeqCst)
    }
}

pub fn run(w: &Value) -> Result<(), Violation> {
    let spec = spec_from(w);
    let evs = events(&spec);
    let mut model = Model::new(&spec);
    externs::reset_events();
    let vm = gluon::new_vm();
    {
        let mut db = vm.get_database_mut();
        db.set_implicit_prelude(false);
        db.set_optimize(false);
    }
    externs::install(&vm);
    vm.load_script("shared", &shared_module(&spec))
        .map_err(|e| Violation::new("harness", format!("shared module: {}", e)))?;
    let n = spec.scripts.len();
    let threads: Vec<RootedThread> = (0..n)
        .map(|_| vm.new_thread().map_err(|e| Violation::new("harness", e.to_string())))
        .collect::<Result<_, _>>()?;
    let sources: Vec<String> = (0..n).map(|t| thread_program(&spec, t)).collect();
    let names: Vec<String> = (0..n).map(|t| format!("thread{}", t)).collect();
    type Fut<'a> = Pin<Box<dyn Future<Output = gluon::Result<(OpaqueValue<RootedThread, Hole>, gluon::base::types::ArcType)>> + 'a>>;
    let mut futs: Vec<Option<Fut>> = Vec::new();
    for t in 0..n {
        futs.push(Some(Box::pin(threads[t].run_expr_async::<OpaqueValue<RootedThread, Hole>>(&names[t], &sources[t]))));
    }
    let mut outcomes: Vec<Option<String>> = vec![None; n];
    let waker = Waker::from(Arc::new(Flag(std::sync::atomic::AtomicBool::new(false))));
    run::set_gc(GcPolicy::from_json(&w["gc"]), true);
    run::set_context("host-polled threads");
    let mut trace = Vec::new();
    let poll_real = |t: usize, futs: &mut Vec<Option<Fut>>, outcomes: &mut Vec<Option<String>>| {
        if let Some(f) = futs[t].as_mut() {
            let mut cx = Context::from_waker(&waker);
            if let Poll::Ready(r) = f.as_mut().poll(&mut cx) {
                outcomes[t] = Some(match r {
                    Ok(_) => "OK".to_string(),
                    Err(e) => format!("ERR {}", e.to_string().lines().next().unwrap_or("")),
                });
                futs[t] = None;
            }
        }
    };
    let budget = w["budget"].as_u64().unwrap_or(20);
    let mut unfired: Vec<i64> = evs.clone();
    for _ in 0..budget {
        if model.finished() {
            break;
        }
        // candidates: poll an unfinished thread, fire an unfired event
        let live: Vec<usize> = (0..n).filter(|t| model.status[*t] == Status::Ready).collect();
        let ncand = live.len() + unfired.len();
        if ncand == 0 {
            break;
        }
        let c = run::choose("host", ncand as u32) as usize;
        if c < live.len() {
            let t = live[c];
            trace.push(format!("poll {}", t));
            model.poll(t);
            poll_real(t, &mut futs, &mut outcomes);
        } else {
            let k = unfired.remove(c - live.len());
            trace.push(format!("fire {}", k));
            run::count("events_fired", 1);
            model.fired.insert(k);
            externs::fire(k);
        }
    }
    // faults stop: fire everything, then poll until the model says everybody is done
    for k in unfired.drain(..) {
        trace.push(format!("fire {}", k));
        model.fired.insert(k);
        externs::fire(k);
    }
    let mut rounds = 0;
    while !model.finished() && rounds < 4 * n + 8 {
        for t in 0..n {
            model.poll(t);
            poll_real(t, &mut futs, &mut outcomes);
        }
        rounds += 1;
    }
    // give the real threads the same number of extra polls
    for _ in 0..2 {
        for t in 0..n {
            poll_real(t, &mut futs, &mut outcomes);
        }
    }
    run::gc_active(false);
    run::count("cross_thread_wait", model.cross_waits);
    run::count("failed_lazy_force", model.failed_forces);
    run::count("thunk_fail", model.lazies.iter().filter(|l| **l == LazyState::Failed).count() as u64);
    let expected: Vec<String> = model.log.iter().map(|(t, v, _)| format!("{} {}", t, v)).collect();
    let actual: Vec<String> = run::with(|s| s.obs.clone());
    if std::env::var("SIM_DEBUG").is_ok() {
        eprintln!("{}\n{}\ntrace {:?}\nexpected {:?}\nactual   {:?}\noutcomes {:?}\nmodel status {:?}", shared_module(&spec), sources.join("---\n"), trace, expected, actual, outcomes, model.status);
    }
    let m = expected.len().min(actual.len());
    for i in 0..m {
        if expected[i] != actual[i] {
            return Err(Violation::new(
                "contract",
                format!("host-polled threads: observation {} ({}): model expects `{}` but gluon reported `{}`", i, model.log[i].2, expected[i], actual[i]),
            ));
        }
    }
    if actual.len() != expected.len() {
        let note = if actual.len() < expected.len() { model.log[actual.len()].2 } else { "extra" };
        return Err(Violation::new(
            "contract",
            format!("host-polled threads: {} observations expected, {} made (next: {})", expected.len(), actual.len(), note),
        ));
    }
    if !model.finished() {
        return Err(Violation::new("harness", "model did not finish"));
    }
    for t in 0..n {
        let exp = if model.status[t] == Status::Done { "OK" } else { "ERR" };
        match &outcomes[t] {
            None => {
                return Err(Violation::new(
                    "hang",
                    format!(
                        "host-polled threads: thread {} is still pending after every event fired and {} polling rounds; the model says it {}",
                        t, rounds + 2, if exp == "OK" { "finishes" } else { "fails with an error" }
                    ),
                ));
            }
            Some(o) => {
                if !o.starts_with(exp) {
                    return Err(Violation::new(
                        "contract",
                        format!("host-polled threads: thread {} ended with `{}`, the model says {}", t, o, exp),
                    ));
                }
            }
        }
    }
    run::with(|s| {
        s.stats.nontrivial = model.cross_waits > 0 || model.failed_forces > 0;
        s.stats.sample = Some(json!({ "class": "threads", "thunks": w["thunks"], "threads": w["threads"], "schedule": trace, "log": expected }));
    });
    drop(futs);
    drop(threads);
    drop(vm);
    Ok(())
}
