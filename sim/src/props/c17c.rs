//! C17, class `cells`: cells that hold constructors. `std.reference` (IO) and `std.st.reference`
//! (pure) cells are created with a field-less constructor (`True`/`False`, `Tip`), a constructor
//! with fields (`Leaf n`) or a small record, and a generated sequence of stores and loads is
//! checked against the obvious model: a load yields the most recently stored value.
use gluon::{
    vm::api::{Hole, OpaqueValue},
    RootedThread, ThreadExt,
};
use serde_json::{json, Value};

use crate::{
    exec, externs,
    prng::Rng,
    run::{self, GcPolicy, Violation},
};

/// value index -> (gluon expression, code reported by `code`)
const VALUES: &[(&str, i64)] = &[("False", 0), ("True", 1)];
const TREES: &[(&str, i64)] = &[("Tip", 0), ("(Leaf 7)", 7), ("(Leaf 8)", 8), ("(Node Tip \"s\" Tip)", -1)];

pub fn generate(rng: &mut Rng) -> Value {
    let kind = *rng.pick(&["bool", "tree"]);
    let nvals = if kind == "bool" { VALUES.len() } else { TREES.len() };
    let cells = 1 + rng.below(2);
    let init: Vec<usize> = (0..cells).map(|_| rng.below(nvals)).collect();
    let n = 2 + rng.below(10);
    let ops: Vec<Value> = (0..n)
        .map(|_| {
            let c = rng.below(cells);
            if rng.chance(1, 2) {
                json!({ "op": "store", "cell": c, "v": rng.below(nvals) })
            } else {
                json!({ "op": "load", "cell": c })
            }
        })
        .collect();
    json!({
        "class": "cells",
        "kind": kind,
        "pure": rng.chance(1, 3),
        "init": init,
        "ops": ops,
        "gc": GcPolicy::generate(rng).to_json(),
    })
}

fn program(w: &Value) -> (String, Vec<String>) {
    let kind = w["kind"].as_str().unwrap_or("bool");
    let table = if kind == "bool" { VALUES } else { TREES };
    let pure = w["pure"].as_bool().unwrap_or(false);
    let empty = Vec::new();
    let init = w["init"].as_array().unwrap_or(&empty);
    let ops = w["ops"].as_array().unwrap_or(&empty);
    let mut model: Vec<usize> = init.iter().map(|v| v.as_u64().unwrap_or(0) as usize).collect();
    let mut expected = Vec::new();
    let mut src = String::from(
        "let io = import! std.io.prim\nlet rf = import! std.reference.prim\nlet st = import! std.st.reference.prim\nlet sim = import! sim\nlet { Bool } = import! std.types\nlet { Tree } = import! simtypes\n",
    );
    if kind == "bool" {
        src.push_str("let code b = if b then 1 else 0\n");
    } else {
        src.push_str("let code t =\n    match t with\n    | Leaf i -> i\n    | Node l s r -> 0 #Int- 1\n    | Tip -> 0\n");
    }
    // the script is a chain of flat_maps built from the last step backwards
    let mut body = String::from("io.wrap 0");
    for (k, op) in ops.iter().enumerate().rev() {
        let c = op["cell"].as_u64().unwrap_or(0);
        body = if op["op"].as_str() == Some("store") {
            let v = table[op["v"].as_u64().unwrap_or(0) as usize].0;
            if pure {
                format!("io.flat_map (\\u{} -> {}) (io.wrap (st.(<-) c{} {}))", k, body, c, v)
            } else {
                format!("io.flat_map (\\u{} -> {}) (rf.(<-) c{} {})", k, body, c, v)
            }
        } else if pure {
            format!("io.flat_map (\\x{} -> io.flat_map (\\o{} -> {}) (io.wrap (sim.obs {} (code x{})))) (io.wrap (st.load c{}))", k, k, body, k, k, c)
        } else {
            format!("io.flat_map (\\x{} -> io.flat_map (\\o{} -> {}) (io.wrap (sim.obs {} (code x{})))) (rf.load c{})", k, k, body, k, k, c)
        };
    }
    for (k, op) in ops.iter().enumerate() {
        let c = op["cell"].as_u64().unwrap_or(0) as usize;
        if op["op"].as_str() == Some("store") {
            model[c] = op["v"].as_u64().unwrap_or(0) as usize;
        } else {
            expected.push(format!("{} {}", k, table[model[c]].1));
        }
    }
    for (c, v) in init.iter().enumerate().rev() {
        let e = table[v.as_u64().unwrap_or(0) as usize].0;
        body = if pure {
            format!("io.flat_map (\\c{} -> {}) (io.wrap (st.ref {}))", c, body, e)
        } else {
            format!("io.flat_map (\\c{} -> {}) (rf.ref {})", c, body, e)
        };
    }
    src.push_str(&body);
    src.push('\n');
    (src, expected)
}

pub fn run(w: &Value) -> Result<(), Violation> {
    let (src, expected) = program(w);
    let vm = gluon::new_vm();
    {
        let mut db = vm.get_database_mut();
        db.set_implicit_prelude(false);
        db.set_run_io(true);
        db.set_optimize(false);
    }
    externs::install(&vm);
    vm.load_script("simtypes", crate::gen::TYPES_MODULE)
        .map_err(|e| Violation::new("harness", format!("simtypes: {}", e)))?;
    run::set_gc(GcPolicy::from_json(&w["gc"]), true);
    run::set_context("cells of constructors");
    let fut = vm.run_expr_async::<OpaqueValue<RootedThread, Hole>>("cells", &src);
    let outcome = exec::drive(fut, 100_000, |_| {});
    run::gc_active(false);
    let actual: Vec<String> = run::with(|s| s.obs.clone());
    match outcome {
        exec::Outcome::Ready(Ok(_), _) => {}
        exec::Outcome::Ready(Err(e), _) => {
            return Err(Violation::new("harness", format!("the cell program failed: {}", e.to_string().lines().take(4).collect::<Vec<_>>().join(" / "))))
        }
        _ => return Err(Violation::new("hang", "the cell program did not complete")),
    }
    run::count("cell_programs", 1);
    run::count("cell_loads", expected.len() as u64);
    if actual != expected {
        return Err(Violation::new(
            "contract",
            format!(
                "cells holding constructors ({} cells of {}): loads observed {:?} but the last stored values are {:?}",
                if w["pure"].as_bool().unwrap_or(false) { "std.st.reference" } else { "std.reference" },
                w["kind"].as_str().unwrap_or(""),
                actual,
                expected
            ),
        ));
    }
    run::with(|s| {
        s.stats.nontrivial = expected.len() >= 1 && w["ops"].as_array().map_or(0, |o| o.len()) >= 3;
        s.stats.sample = Some(json!({ "class": "cells", "expected": expected }));
    });
    drop(vm);
    Ok(())
}
