//! C07 — resource limits are enforced, tail calls run in constant stack, interrupts are prompt
//! (`faultsim`, limit classes)
use std::sync::{
    atomic::{AtomicBool, AtomicU64, Ordering},
    Arc,
};

use futures::task::Poll;
use gluon::{
    vm::{
        api::{Hole, OpaqueValue},
        thread::{HookFlags, ThreadInternal},
    },
    RootedThread, ThreadExt,
};
use serde_json::{json, Value};

use crate::{
    engine::{Engine, EngineInfo},
    exec,
    gen::Gen,
    prng::Rng,
    props::c06::{outcome, setup_vm, PRIM_PREAMBLE},
    run::{self, Violation},
};

pub struct C07;

const LAZY: &str = "let lz = import! std.lazy.prim\n";

/// A tail recursive family parameterised by the iteration count `N`
fn tail_family(rng: &mut Rng) -> String {
    // every syntactic tail context: if branches, let body, match arm, right operand of || and &&
    match rng.below(14) {
        // tail calls between functions of different arity, through a function held in a record
        // field, with an extern call as the last non-tail step, to a closure with upvalues
        10 => "(rec let f a = g a 1 2\n let g a b c = if a #Int< 1 then b #Int+ c else f (a #Int- 1) in f @N@)".to_string(),
        11 => "(rec let f a b c d = if a #Int< 1 then b #Int+ c #Int+ d else g (a #Int- 1)\n let g a = f a 1 2 3 in g @N@)".to_string(),
        12 => "(let step = { k = \\n acc -> acc #Int+ (array.len [n]) } in (rec let loop n acc = if n #Int< 1 then acc else loop (n #Int- 1) (step.k n acc) in loop @N@ 0))".to_string(),
        13 => "(let mk d = (rec let loop n acc = if n #Int< 1 then acc else loop (n #Int- 1) (acc #Int+ d) in loop) in (mk 2) @N@ 0)".to_string(),
        6 => "(rec let loop n = (n #Int< 1) || loop (n #Int- 1) in if loop @N@ then 1 else 0)".to_string(),
        7 => "(rec let loop n = (n #Int< 1) || ((0 #Int< n) && loop (n #Int- 1)) in if loop @N@ then 1 else 0)".to_string(),
        8 => "(rec let loop n acc = if n #Int< 1 then acc else (let m = n #Int- 1 in let b = acc #Int+ 1 in loop m b) in loop @N@ 0)".to_string(),
        9 => "rec let loop n t =\n    match t with\n    | Leaf i -> if n #Int< 1 then i else loop (n #Int- 1) (Leaf (i #Int+ 1))\n    | Node l s r -> loop n l\n    | Tip -> loop n (Leaf 0)\nloop @N@ Tip".to_string(),
        0 => "(rec let loop n acc = if n #Int< 1 then acc else loop (n #Int- 1) (acc #Int+ 1) in loop @N@ 0)".to_string(),
        1 => "(rec let even n = if n #Int< 1 then 1 else odd (n #Int- 1)\n let odd n = if n #Int< 1 then 0 else even (n #Int- 1) in even @N@)".to_string(),
        2 => "(rec let loop n acc = if n #Int< 1 then acc else (let k = loop in k (n #Int- 1) (acc #Int+ 2)) in loop @N@ 0)".to_string(),
        3 => "(rec let loop k n acc = if n #Int< 1 then acc else (let g = loop k in g (n #Int- 1) (acc #Int+ k)) in loop 3 @N@ 0)".to_string(),
        4 => "(rec let loop n acc = if n #Int< 1 then acc else (if (n #Int- ((n #Int/ 2) #Int* 2)) #Int< 1 then loop (n #Int- 1) (acc #Int+ 1) else loop (n #Int- 1) acc) in loop @N@ 0)".to_string(),
        _ => "(rec let loop n acc = if n #Int< 1 then acc else (let a = [n, acc] in loop (n #Int- 1) (acc #Int+ (array.len a))) in loop @N@ 0)".to_string(),
    }
}

fn deep_family(rng: &mut Rng) -> String {
    match rng.below(7) {
        // frames with many locals, recursion below an extern call's argument, over-application
        4 => "(rec let deep n = if n #Int< 1 then 0 else (let a = n #Int+ 1 in let b = a #Int+ 1 in let c = b #Int+ 1 in let d = c #Int+ 1 in let e = d #Int+ 1 in let f = e #Int+ 1 in (a #Int+ b #Int+ c #Int+ d #Int+ e #Int+ f #Int- (6 #Int* n) #Int- 21) #Int+ 1 #Int+ deep (n #Int- 1)) in deep @N@)".to_string(),
        5 => "(rec let deep n = if n #Int< 1 then 0 else array.len [deep (n #Int- 1), n] #Int+ deep (n #Int- 1) #Int- 2 #Int+ 1 in deep (if @N@ #Int< 16 then @N@ else 16))".to_string(),
        6 => "(rec let deep n = if n #Int< 1 then (\\x y -> x #Int+ y) else (let r = deep (n #Int- 1) in (\\x -> r (x #Int+ 1))) in deep @N@ 0 1)".to_string(),
        0 => "(rec let deep n = if n #Int< 1 then 0 else 1 #Int+ deep (n #Int- 1) in deep @N@)".to_string(),
        1 => "(rec let f n = if n #Int< 1 then 0 else 1 #Int+ g (n #Int- 1)\n let g n = if n #Int< 1 then 0 else 2 #Int+ f (n #Int- 1) in f @N@)".to_string(),
        2 => "(rec let deep k n = if n #Int< 1 then [k] else array.append [n] (deep k (n #Int- 1)) in array.len (deep 1 @N@))".to_string(),
        _ => "(rec let deep n = if n #Int< 1 then (\\x -> x) else (let r = deep (n #Int- 1) in (\\x -> r (x #Int+ 1))) in deep @N@ 0)".to_string(),
    }
}

fn alloc_family(rng: &mut Rng) -> String {
    match rng.below(7) {
        // what grows is a chain of partial applications / of closures / of excess-argument blocks
        4 => "(let link prev k x = prev (x #Int+ k) in (rec let loop n acc = if n #Int< 1 then acc 0 else loop (n #Int- 1) (link acc n) in loop @N@ (\\x -> x)))".to_string(),
        5 => "(rec let loop n acc = if n #Int< 1 then acc 0 else (let prev = acc in loop (n #Int- 1) (\\x -> prev (x #Int+ n))) in loop @N@ (\\x -> x))".to_string(),
        6 => "(let pair a b = { a, b } in (rec let loop n acc = if n #Int< 1 then array.len acc else loop (n #Int- 1) (array.append acc [pair n]) in loop @N@ [pair 0]))".to_string(),
        0 => "(rec let loop n acc = if n #Int< 1 then array.len acc else loop (n #Int- 1) (array.append acc [n]) in loop @N@ [0])".to_string(),
        1 => "(rec let loop n acc = if n #Int< 1 then string.len acc else loop (n #Int- 1) (string.append acc \"ab\") in loop @N@ \"\")".to_string(),
        2 => "(rec let build n = if n #Int< 1 then Tip else Node (build (n #Int- 1)) \"x\" (Leaf n) in (let t = build @N@ in 1))".to_string(),
        _ => "(rec let loop n acc = if n #Int< 1 then acc.a else loop (n #Int- 1) { a = acc.a #Int+ 1, b = [acc.a, n], c = \"s\" } in loop @N@ { a = 0, b = [0, 0], c = \"\" })".to_string(),
    }
}

fn native_family(rng: &mut Rng) -> String {
    // recursion that goes through an extern function and therefore through the native stack
    match rng.below(2) {
        0 => "(rec let f n = if n #Int< 1 then 0 else lz.force (lz.lazy (\\u -> 1 #Int+ f (n #Int- 1))) in f @N@)".to_string(),
        _ => "(rec let f n = if n #Int< 1 then (lz.lazy (\\u -> 0)) else (let prev = f (n #Int- 1) in lz.lazy (\\u -> 1 #Int+ lz.force prev)) in lz.force (f @N@))".to_string(),
    }
}

fn program(body: &str, n: u64) -> String {
    format!("{}{}{}\n", PRIM_PREAMBLE, LAZY, body.replace("@N@", &n.to_string()))
}

struct Monitor {
    calls: AtomicU64,
    max_frames: AtomicU64,
    interrupt_at: AtomicU64,
    calls_after_interrupt: AtomicU64,
    interrupted: AtomicBool,
    abort_after: AtomicU64,
}

fn install_monitor(vm: &RootedThread) -> Arc<Monitor> {
    let m = Arc::new(Monitor {
        calls: AtomicU64::new(0),
        max_frames: AtomicU64::new(0),
        interrupt_at: AtomicU64::new(u64::MAX),
        calls_after_interrupt: AtomicU64::new(0),
        interrupted: AtomicBool::new(false),
        abort_after: AtomicU64::new(u64::MAX),
    });
    let m2 = m.clone();
    let mut context = vm.context();
    context.set_hook(Some(Box::new(move |thread, info| {
        let n = m2.calls.fetch_add(1, Ordering::SeqCst);
        m2.max_frames.fetch_max(info.stack_info_len() as u64, Ordering::SeqCst);
        if m2.interrupted.load(Ordering::SeqCst) {
            m2.calls_after_interrupt.fetch_add(1, Ordering::SeqCst);
        }
        if n == m2.interrupt_at.load(Ordering::SeqCst) {
            m2.interrupted.store(true, Ordering::SeqCst);
            thread.interrupt();
        }
        if n >= m2.abort_after.load(Ordering::SeqCst) {
            return Poll::Ready(Err(gluon::vm::Error::Message("harness: step cap".to_string())));
        }
        Poll::Ready(Ok(()))
    })));
    context.set_hook_mask(HookFlags::CALL_FLAG);
    m
}

fn reset(m: &Monitor) {
    m.calls.store(0, Ordering::SeqCst);
    m.max_frames.store(0, Ordering::SeqCst);
    m.interrupt_at.store(u64::MAX, Ordering::SeqCst);
    m.calls_after_interrupt.store(0, Ordering::SeqCst);
    m.interrupted.store(false, Ordering::SeqCst);
    m.abort_after.store(u64::MAX, Ordering::SeqCst);
}

fn eval(vm: &RootedThread, name: &str, src: &str) -> String {
    let fut = vm.run_expr_async::<OpaqueValue<RootedThread, Hole>>(name, src);
    match exec::drive(fut, 1_000_000, |_| {}) {
        exec::Outcome::Ready(r, _) => outcome(r),
        exec::Outcome::Stuck(p) => format!("HANG after {} polls", p),
        _ => "POLL-CAP".to_string(),
    }
}

impl Engine for C07 {
    fn id(&self) -> &'static str {
        "C07"
    }

    fn info(&self) -> EngineInfo {
        EngineInfo {
            rule: "one run = one class on a fresh VM. memory: an allocation-heavy generated family (array/string/tree/record growth, plus generator programs) runs unlimited, then under 1-4 memory limits = baseline + delta; accounted memory is sampled at every check_collect (guarded hook) and at the end. stack: a recursion-heavy family (direct, mutual, data-building, closure-returning) under a sweep of value-stack limits, stack length checked at the end. tail: a tail-call family (self, mutual, through a function argument, through a partial application, in both branches, allocating) for n in {10, 1000, 30000}: the minimal stack limit that lets the run succeed must not depend on n and the peak frame count must be equal. interrupt: Thread::interrupt fired from the debug hook at the k-th CALL event of a terminating or non-terminating loop (in a third of the runs from a LINE hook, with no CALL hook installed, in a multi-line loop made of a self tail call and primitive instructions only): Err(Interrupted) must arrive within 3 further CALL (6 LINE) events. native: recursion through std.lazy.force (native stack) at depth 10..20000. native-data: a value 100..400000 levels deep (left-nested tree, chain of closures) built in constant VM stack by tail calls, collected while the host holds it and after the drop: the collector must not need native stack per level. Non-trivial = a limit error or an interrupt was actually produced; distinct = distinct workload hash.",
            real: vec!["Gc::alloc_owned limit check, Stack frame limit check, compiler's max_stack_size accounting, TailCall frame reuse, interrupt poll in Thread::execute, std.lazy force"],
            stubbed: vec!["executor", "the instant of the interrupt is a CALL-event index decided by the workload"],
            not_exercised: vec!["interrupt from another OS thread (same atomic flag; OS scheduling is C14's subject)"],
            fault_kinds: vec!["memory_limit", "stack_limit", "interrupt", "native_recursion", "native_deep_data"],
            assumptions: vec![
                "accounted memory is observed at every check_collect and at the end of the run, not at every instruction",
                "promptness is measured in CALL hook events, not wall time",
            ],
            shrink: vec![],
            quick: (5000, 150),
            thorough: (60000, 1100),
        }
    }

    fn generate(&self, rng: &mut Rng, _tier: &str) -> Value {
        let class = *rng.pick(&["memory", "memory", "stack", "stack", "tail", "interrupt", "interrupt", "native", "native-data"]);
        match class {
            "memory" => {
                let body = if rng.chance(1, 3) {
                    let mut g = Gen::new(rng, 80);
                    g.allow_match = false;
                    g.max_loop = 30;
                    let t = g.data_ty(2);
                    g.expr(&t, 5)
                } else {
                    alloc_family(rng)
                };
                let n = *rng.pick(&[1u64, 5, 20, 100, 400]);
                let deltas: Vec<u64> = (0..1 + rng.below(4)).map(|_| *rng.pick(&[0u64, 8, 24, 40, 64, 100, 200, 500, 1500, 5000, 20000, 100000])).collect();
                json!({ "class": class, "body": body, "n": n, "deltas": deltas })
            }
            "stack" => {
                let body = deep_family(rng);
                let n = *rng.pick(&[1u64, 3, 10, 50, 200, 2000]);
                let limits: Vec<u64> = (0..1 + rng.below(4)).map(|_| *rng.pick(&[0u64, 1, 2, 3, 4, 6, 8, 12, 16, 24, 32, 64, 128, 512, 4096, 65536])).collect();
                json!({ "class": class, "body": body, "n": n, "limits": limits })
            }
            "tail" => json!({ "class": class, "body": tail_family(rng) }),
            "interrupt" => {
                let infinite = rng.chance(1, 2);
                let body = if infinite && rng.chance(1, 3) {
                    // the loop body is extern calls only
                    "(rec let loop n = loop (array.len [n, n]) in loop @N@)".to_string()
                } else if infinite {
                    "(rec let loop n = loop (n #Int+ 1) in loop @N@)".to_string()
                } else if rng.chance(1, 2) {
                    tail_family(rng)
                } else {
                    deep_family(rng)
                };
                if rng.chance(1, 3) {
                    // the interrupt is requested from a LINE hook: no CALL hook is installed while the
                    // loop runs (an interpreter fast path may depend on that), the loop is made of a
                    // self tail call and primitive instructions only, one iteration spans lines
                    let (body, infinite) = match rng.below(3) {
                        0 => ("rec let loop n =\n    let m = n #Int+ 1\n    loop m\nloop @N@", true),
                        1 => ("rec let loop n acc =\n    if n #Int< 1 then acc\n    else\n        let a = acc #Int+ 1\n        loop (n #Int- 1) a\nloop @N@ 0", false),
                        _ => ("rec let loop n t =\n    match t with\n    | Leaf i ->\n        if n #Int< 1 then i\n        else loop (n #Int- 1) (Leaf (i #Int+ 1))\n    | Node l s r -> loop n l\n    | Tip -> loop n (Leaf 0)\nloop @N@ Tip", false),
                    };
                    return json!({ "class": class, "body": body, "n": *rng.pick(&[50u64, 500, 5000]), "at": rng.below(200), "infinite": infinite, "hook": "line" });
                }
                json!({ "class": class, "body": body, "n": *rng.pick(&[50u64, 500, 5000]), "at": rng.below(200), "infinite": infinite })
            }
            "native-data" => {
                // constant VM stack (tail calls), but the *data* is n levels deep: whatever walks it
                // natively (the collector's mark phase) must not need native stack per level
                let body = match rng.below(2) {
                    0 => "(rec let build n acc = if n #Int< 1 then acc else build (n #Int- 1) (Node acc \"\" Tip) in build @N@ Tip)",
                    _ => "(rec let build n f = if n #Int< 1 then f else build (n #Int- 1) (\\x -> f (x #Int+ 1)) in build @N@ (\\x -> x))",
                };
                json!({ "class": class, "body": body, "n": *rng.pick(&[100u64, 3000, 30000, 120000, 400000]) })
            }
            _ => json!({ "class": class, "body": native_family(rng), "n": *rng.pick(&[10u64, 100, 1000, 5000, 20000]) }),
        }
    }

    fn run(&self, w: &Value) -> Result<(), Violation> {
        let class = w["class"].as_str().unwrap_or("memory");
        let body = w["body"].as_str().unwrap_or("0");
        let n = w["n"].as_u64().unwrap_or(10);
        let vm = setup_vm(false)?;
        vm.run_expr::<OpaqueValue<RootedThread, Hole>>("warm_lazy", &format!("{}{}0\n", PRIM_PREAMBLE, LAZY))
            .map_err(|e| Violation::new("harness", e.to_string()))?;
        let monitor = install_monitor(&vm);
        let mut nontrivial = false;
        let mut log = Vec::new();
        match class {
            "memory" => {
                let src = program(body, n);
                run::set_context("unlimited reference run");
                let reference = eval(&vm, "ref", &src);
                if !reference.starts_with("OK") {
                    run::count("reference_failed", 1);
                }
                for (k, delta) in w["deltas"].as_array().cloned().unwrap_or_default().iter().enumerate() {
                    let delta = delta.as_u64().unwrap_or(0) as usize;
                    vm.collect();
                    let base = vm.allocated_memory();
                    let limit = base + delta;
                    vm.set_memory_limit(limit);
                    run::with(|s| {
                        s.mem_watch = Some((vm.verif_heaps().0, 0));
                    });
                    run::count("memory_limit", 1);
                    run::set_context(format!("run under memory limit baseline+{}", delta));
                    run::gc_active(true);
                    let out = eval(&vm, &format!("mem{}", k), &src);
                    run::gc_active(false);
                    let peak = run::with(|s| s.mem_watch.take().map(|w| w.1).unwrap_or(0));
                    let end = vm.allocated_memory();
                    vm.set_memory_limit(usize::MAX);
                    log.push(format!("limit +{}: {}", delta, clip(&out)));
                    if out == "ERR vm:OutOfMemory" {
                        nontrivial = true;
                    } else if out != reference {
                        return Err(Violation::new(
                            "limit-outcome",
                            format!("under memory limit baseline+{} the program gave `{}`; unlimited it gives `{}`", delta, clip(&out), clip(&reference)),
                        ));
                    }
                    if peak.max(end) > limit {
                        return Err(Violation::new(
                            "memory-limit-exceeded",
                            format!(
                                "{}: accounted memory reached {} bytes with the limit set to {} (baseline {}, delta {}); outcome `{}`",
                                if out == "ERR vm:OutOfMemory" {
                                    "while reporting the out-of-memory error"
                                } else {
                                    "during a run that did not fail"
                                },
                                peak.max(end), limit, base, delta, clip(&out)
                            ),
                        ));
                    }
                }
            }
            "stack" => {
                let src = program(body, n);
                let reference = eval(&vm, "ref", &src);
                for (k, l) in w["limits"].as_array().cloned().unwrap_or_default().iter().enumerate() {
                    let extra = l.as_u64().unwrap_or(0) as u32;
                    let (len0, _) = vm.verif_stack_len();
                    let limit = len0 as u32 + extra;
                    vm.context().set_max_stack_size(limit);
                    run::count("stack_limit", 1);
                    run::set_context(format!("run under stack limit {}", limit));
                    let out = eval(&vm, &format!("stack{}", k), &src);
                    let (len1, frames1) = vm.verif_stack_len();
                    vm.context().set_max_stack_size(u32::MAX);
                    log.push(format!("stack limit +{}: {}", extra, clip(&out)));
                    if out == "ERR vm:StackOverflow" {
                        nontrivial = true;
                    } else if out != reference {
                        return Err(Violation::new(
                            "limit-outcome",
                            format!("under stack limit +{} the program gave `{}`; unlimited it gives `{}`", extra, clip(&out), clip(&reference)),
                        ));
                    }
                    if len1 as u32 > limit || (len1, frames1) != (len0, 1) {
                        return Err(Violation::new(
                            "stack-after-limit",
                            format!("after the run under stack limit {} the value stack holds {} values in {} frames (before: {})", limit, len1, frames1, len0),
                        ));
                    }
                }
            }
            "tail" => {
                let mut mins = Vec::new();
                let mut frames = Vec::new();
                for &n in &[10u64, 1000, 30000] {
                    let src = program(body, n);
                    // smallest limit that lets the run succeed
                    let (mut lo, mut hi) = (0u32, 4096u32);
                    let mut ok_at_hi = false;
                    while lo < hi {
                        let mid = (lo + hi) / 2;
                        vm.context().set_max_stack_size(mid);
                        reset(&monitor);
                        let out = eval(&vm, &format!("tail{}_{}", n, mid), &src);
                        if out.starts_with("OK") {
                            hi = mid;
                            ok_at_hi = true;
                            frames.push((n, mid, monitor.max_frames.load(Ordering::SeqCst)));
                        } else if out == "ERR vm:StackOverflow" {
                            lo = mid + 1;
                        } else {
                            vm.context().set_max_stack_size(u32::MAX);
                            return Err(Violation::new("limit-outcome", format!("tail family n={} under stack limit {} gave `{}`", n, mid, clip(&out))));
                        }
                    }
                    vm.context().set_max_stack_size(u32::MAX);
                    if !ok_at_hi {
                        return Err(Violation::new(
                            "tail-call-stack-grows",
                            format!("tail recursive family needs more than 4096 stack slots for n={} (n=10 needs {:?}): {}", n, mins.first(), body),
                        ));
                    }
                    mins.push((n, hi));
                }
                log.push(format!("minimal stack limits {:?}", mins));
                if mins.iter().any(|m| m.1 != mins[0].1) {
                    return Err(Violation::new(
                        "tail-call-stack-grows",
                        format!("the minimal stack limit of a tail recursive loop depends on the iteration count: {:?} for {}", mins, body),
                    ));
                }
                let peak: Vec<u64> = [10u64, 1000, 30000]
                    .iter()
                    .map(|n| frames.iter().filter(|f| f.0 == *n).map(|f| f.2).max().unwrap_or(0))
                    .collect();
                if peak.iter().any(|p| *p != peak[0]) {
                    return Err(Violation::new(
                        "tail-call-frames-grow",
                        format!("peak frame count of a tail recursive loop depends on the iteration count: {:?} for {}", peak, body),
                    ));
                }
                nontrivial = true;
            }
            "interrupt" => {
                let src = program(body, if w["infinite"].as_bool().unwrap_or(false) { 0 } else { n * 20 });
                let at = w["at"].as_u64().unwrap_or(0);
                reset(&monitor);
                monitor.interrupt_at.store(at, Ordering::SeqCst);
                monitor.abort_after.store(at + 50_000, Ordering::SeqCst);
                run::count("interrupt", 1);
                run::set_context("interrupt");
                let line_hook = w["hook"].as_str() == Some("line");
                if line_hook {
                    run::count("interrupt_from_line_hook", 1);
                    vm.context().set_hook_mask(HookFlags::LINE_FLAG);
                }
                let out = eval(&vm, "intr", &src);
                if line_hook {
                    vm.context().set_hook_mask(HookFlags::CALL_FLAG);
                }
                // (in the line variant the monitor counts LINE events; at most two lines of one
                // iteration can pass before the next tail call polls the flag)
                let grace = if line_hook { 6 } else { 3 };
                let fired = monitor.interrupted.load(Ordering::SeqCst);
                let after = monitor.calls_after_interrupt.load(Ordering::SeqCst);
                log.push(format!("interrupt at call {}: {} ({} calls later)", at, clip(&out), after));
                if fired {
                    nontrivial = true;
                    if out != "ERR vm:Interrupted" {
                        // the program may legitimately finish inside the grace window
                        if !(out.starts_with("OK") && after <= grace) {
                            return Err(Violation::new(
                                "interrupt-ignored",
                                format!("interrupt requested at hook event {} but the evaluation ended with `{}` after {} further hook events", at, clip(&out), after),
                            ));
                        }
                    } else if after > grace {
                        return Err(Violation::new(
                            "interrupt-late",
                            format!("interrupt requested at hook event {} was delivered only {} hook events later", at, after),
                        ));
                    }
                    // the VM is usable again
                    reset(&monitor);
                    let probe = eval(&vm, "probe", &program("(1 #Int+ 2)", 0));
                    if probe != "OK 3 : Int" {
                        return Err(Violation::new("interrupt-sticky", format!("after an interrupt the next evaluation gave `{}`", probe)));
                    }
                }
            }
            "native-data" => {
                let src = program(body, n);
                run::count("native_deep_data", 1);
                run::set_context(format!("a value {} levels deep built with tail calls, then collected", n));
                let fut = vm.run_expr_async::<OpaqueValue<RootedThread, Hole>>("native-data", &src);
                match exec::drive(fut, 1_000_000, |_| {}) {
                    exec::Outcome::Ready(Ok((v, _)), _) => {
                        // the host holds the value: the mark phase walks all n levels
                        vm.collect();
                        drop(v);
                        vm.collect();
                        log.push(format!("depth {}: built, collected while rooted, collected after the drop", n));
                    }
                    exec::Outcome::Ready(Err(e), _) => {
                        let out = outcome(Err(e));
                        log.push(format!("depth {}: {}", n, clip(&out)));
                        if !(out == "ERR vm:StackOverflow" || out == "ERR vm:OutOfMemory") {
                            return Err(Violation::new("limit-outcome", format!("building a value {} levels deep gave `{}`", n, clip(&out))));
                        }
                    }
                    _ => return Err(Violation::new("hang", format!("building a value {} levels deep did not complete", n))),
                }
                let probe = eval(&vm, "probe", &program("(1 #Int+ 2)", 0));
                if probe != "OK 3 : Int" {
                    return Err(Violation::new("limit-outcome", format!("after the deep value the next evaluation gave `{}`", probe)));
                }
                nontrivial = n >= 3000;
            }
            _ => {
                let src = program(body, n);
                run::count("native_recursion", 1);
                run::set_context(format!("recursion through std.lazy.force, depth {}", n));
                let out = eval(&vm, "native", &src);
                log.push(format!("depth {}: {}", n, clip(&out)));
                if !(out.starts_with("OK") || out == "ERR vm:StackOverflow" || out == "ERR vm:OutOfMemory") {
                    return Err(Violation::new("limit-outcome", format!("recursion through force at depth {} gave `{}`", n, clip(&out))));
                }
                nontrivial = n >= 1000;
            }
        }
        run::with(|s| {
            s.stats.nontrivial = nontrivial;
            s.stats.sample = Some(json!({ "class": class, "body": body, "n": n, "log": log }));
        });
        vm.context().set_hook(None);
        drop(monitor);
        drop(vm);
        Ok(())
    }
}

fn clip(s: &str) -> String {
    if s.len() > 200 {
        let mut e = 200;
        while !s.is_char_boundary(e) {
            e -= 1;
        }
        format!("{}…", &s[..e])
    } else {
        s.to_string()
    }
}
