//! C13 — heaps are isolated: values crossing threads are complete independent copies (`gcsim`)
use std::collections::BTreeMap;

use gluon::{
    vm::api::{Getable, Hole, OpaqueValue, OwnedFunction},
    RootedThread, ThreadExt,
};
use gluon_vm::thread::RootedValue;
use serde_json::{json, Value};

use crate::{
    engine::{Engine, EngineInfo},
    gen::{self, Gen},
    heap,
    prng::Rng,
    run::{self, GcPolicy, Violation},
};

pub struct C13;

type Val = RootedValue<RootedThread>;

const EXTRA: &str = "let st = import! std.st.reference.prim\nlet lz = import! std.lazy.prim\n";

fn data(rng: &mut Rng) -> String {
    let mut g = Gen::new(rng, 25);
    g.allow_match = false;
    g.max_loop = 6;
    let t = g.data_ty(2);
    g.expr(&t, 3)
}

/// (program, callable with one Int argument)
fn value_program(rng: &mut Rng) -> (String, bool) {
    let d = data(rng);
    let (body, callable) = match rng.below(16) {
        0 => (d, false),
        1 => ("[1b, 2b, 255b, 0b]".to_string(), false),
        2 => ("[1.5, 2.25, 1000000.5, -0.0]".to_string(), false),
        3 => (format!("[\"a\", \"bc\", (string.append \"x\" \"{}\")]", "yz".repeat(rng.below(20))), false),
        4 => ("[[1], [2, 3], [4, 5, 6]]".to_string(), false),
        5 => (format!("[{{ a = 1, b = {} }}, {{ a = 2, b = {} }}]", d, d), false),
        6 => ("(let r = st.ref [1, 2] in [r, st.ref [3], r])".to_string(), false),
        7 => (format!("[lz.lazy (\\u -> {}), lz.lazy (\\u -> {})]", d, d), false),
        8 => ("(rec let t = Node t \"cycle\" (Leaf 1) in t)".to_string(), false),
        9 => (format!("(let v = {} in (\\x -> {{ a = v, b = x, c = v }}))", d), true),
        10 => (format!("(let v = {} in let f = (\\x -> [x, x]) in (\\y -> {{ r = f y, d = v, again = f }}))", d), true),
        11 => (format!("(let f a b c = {{ a = a, b = b, c = c }} in f {} 7)", d), true),
        12 => ("(array.index [10, 20, 30, 40])".to_string(), true),
        13 => (format!("(let v = {} in {{ l = v, r = v, arr = [v, v] }})", d), false),
        14 => (format!("(let r = st.ref {} in let l = lz.lazy (\\u -> {}) in let f = lz.force l in {{ a = r, b = r, l = l, v = f }})", d, d), false),
        _ => ("(rec let f n = if n #Int< 1 then [0] else array.append [n] (f (n #Int- 1)) in f)".to_string(), true),
    };
    // (made inside a named function, exactly like in `channel_program`, so that closures carry the
    // same names on both routes)
    (format!("{}{}let mk u = {}\nmk ()\n", gen::PREAMBLE, EXTRA, body), callable)
}

/// A value made in a coroutine (child thread) and sent to its parent over a channel
fn channel_program(value_prog: &str, dummy: bool) -> String {
    // the element of the channel is the value itself
    let body = value_prog
        .trim_start_matches(gen::PREAMBLE)
        .trim_start_matches(EXTRA)
        .trim_start_matches("let mk u = ")
        .trim_end()
        .trim_end_matches("mk ()")
        .trim();
    let _ = dummy;
    format!(
        "{}{}let io = import! std.io.prim\nlet ch = import! std.channel.prim\nlet th = import! std.thread.prim\nlet {{ Result }} = import! std.types\nlet unres d x =\n    match x with\n    | Ok v -> v\n    | Err e -> d\nlet mk u = {}\nlet dummy = mk ()\nio.flat_map (\\p -> io.flat_map (\\t -> io.flat_map (\\u -> io.flat_map (\\x -> io.wrap (unres dummy x)) (ch.recv p.receiver)) (th.resume t)) (th.spawn (io.flat_map (\\u -> io.flat_map (\\r -> io.wrap ()) (ch.send p.sender (mk ()))) (io.wrap ())))) (ch.channel dummy)\n",
        gen::PREAMBLE, EXTRA, body
    )
}

/// A value made by an action spawned on another thread (`std.thread.prim.spawn_on`): on a new
/// child (hop 0), or made on one new thread, captured by an action that runs on a *sibling* of
/// that thread and handed back (hop 1: the action and its upvalues cross between heaps that may
/// not share)
fn spawn_on_program(value_prog: &str, hop: u64) -> String {
    let body = value_prog
        .trim_start_matches(gen::PREAMBLE)
        .trim_start_matches(EXTRA)
        .trim_start_matches("let mk u = ")
        .trim_end()
        .trim_end_matches("mk ()")
        .trim();
    let run = if hop == 2 {
        // `join` runs its second action on a new child thread; its result is handed back
        "io.flat_map (\\p -> io.wrap p._1) (th.join (io.flat_map (\\u -> io.wrap 0) (io.wrap ())) (io.flat_map (\\u -> io.wrap (mk ())) (io.wrap ())))"
    } else if hop == 0 {
        "io.flat_map (\\t1 -> io.flat_map (\\fut -> fut) (th.spawn_on t1 (io.flat_map (\\u -> io.wrap (mk ())) (io.wrap ())))) (th.new_thread ())"
    } else {
        "io.flat_map (\\t1 -> io.flat_map (\\t2 -> io.flat_map (\\fut -> fut) (th.spawn_on t1 (io.flat_map (\\u -> (let v = mk () in io.flat_map (\\fut2 -> fut2) (th.spawn_on t2 (io.flat_map (\\u2 -> io.wrap v) (io.wrap ()))))) (io.wrap ())))) (th.new_thread ())) (th.new_thread ())"
    };
    format!(
        "{}{}let io = import! std.io.prim\nlet th = import! std.thread.prim\nlet mk u = {}\n{}\n",
        gen::PREAMBLE, EXTRA, body, run
    )
}

struct Slot {
    vm: usize,
    t: usize,
    value: Val,
    encoding: String,
    origin: usize,
    callable: bool,
    /// the value is an array of two unevaluated lazy values
    lazy_array: bool,
}

struct World {
    /// vms[v][t] = thread t of vm v (0 = root)
    vms: Vec<Vec<Option<RootedThread>>>,
    parents: Vec<Vec<usize>>,
    slots: Vec<Option<Slot>>,
    /// (origin, argument) -> encoding of the call result on the original
    call_results: BTreeMap<(usize, i64), String>,
    /// global heap id of every vm (also of dropped ones)
    globals: Vec<u32>,
    /// vm on which each origin value was made
    origin_vm: BTreeMap<usize, usize>,
}

fn new_vm(parents: &[usize]) -> Result<Vec<Option<RootedThread>>, Violation> {
    let vm = gluon::new_vm();
    {
        let mut db = vm.get_database_mut();
        db.set_implicit_prelude(false);
        db.set_run_io(true);
    }
    vm.load_script("simtypes", gen::TYPES_MODULE)
        .map_err(|e| Violation::new("harness", format!("simtypes: {}", e)))?;
    let warm = format!(
        "{}{}let _ = import! std.io.prim\nlet _ = import! std.channel.prim\nlet _ = import! std.thread.prim\n0\n",
        gen::PREAMBLE, EXTRA
    );
    vm.run_expr::<OpaqueValue<RootedThread, Hole>>("warmup", &warm)
        .map_err(|e| Violation::new("harness", format!("warmup: {}", e)))?;
    let mut threads = vec![Some(vm)];
    for &p in parents {
        let p = p.min(threads.len() - 1);
        let parent = threads[p].clone().unwrap();
        let child = parent
            .new_thread()
            .map_err(|e| Violation::new("harness", format!("new_thread: {}", e)))?;
        threads.push(Some(child));
    }
    Ok(threads)
}

fn check_all(world: &World, at: &str) -> Result<(), Violation> {
    for (v, vm) in world.vms.iter().enumerate() {
        let root = match &vm[0] {
            Some(r) => r,
            None => continue,
        };
        let walk = heap::walk(root);
        run::count("heap_walks", 1);
        if let Some(&(from, owner, _)) = walk.freed_reached.first() {
            return Err(Violation::new(
                "reachable-freed",
                format!("{}: vm {}: a freed object of heap {} is reachable from heap {}", at, v, owner, from),
            ));
        }
        if let Some(&(from, to, n)) = heap::ownership_violations(&walk).first() {
            let foreign_global = world.globals.iter().enumerate().any(|(g, id)| *id == to && g != v);
            let what = if foreign_global {
                "cross-vm closure: a closure copied into an unrelated VM still points to the bytecode in the source VM's global heap"
            } else {
                "a heap points into a heap that is not one of its ancestors"
            };
            return Err(Violation::new(
                "ownership",
                format!(
                    "{} ({}: vm {}: heap {} holds {} pointer(s) into heap {} which is neither itself nor one of its ancestors; heaps: {})",
                    what, at, v, from, n, to, heap::describe_heaps(&walk)
                ),
            ));
        }
    }
    Ok(())
}

impl Engine for C13 {
    fn id(&self) -> &'static str {
        "C13"
    }

    fn info(&self) -> EngineInfo {
        EngineInfo {
            rule: "one run = a forest of 1-2 unrelated VMs, each a tree of 1-5 gluon threads (depth <= 3), and a generated history of: make a value on a thread (generated data, arrays of every representation incl. byte/float/string/nested/record/reference/lazy elements, cyclic variants, closures over shared upvalues, closures over closures, partial applications of closures and of extern functions, records sharing a sub-value, reference/lazy cells, recursive closures); move it with RootedValue::re_root to any thread of any VM (optionally under a memory limit on the receiver: allocation failure during the clone); create it in a coroutine and send it to the parent over a channel; have it returned by an action spawned with spawn_on on a new child thread, or made on one thread, captured by an action that runs on a sibling thread and handed back; push a foreign handle as a function argument; then any order of collect(thread), drop handle, drop a leaf thread, drop a whole VM, re-encode a handle, call a received closure. Forced collections throughout. Oracles: the guarded graph encoding (DFS numbering, sharing and cycles included) of every copy equals the original's, before and after the sender is collected/dropped; received closures return isomorphic results; after every operation the Trace-driven walker finds no freed object and no pointer from a heap into a heap that is not itself or an ancestor. Non-trivial = at least one transfer between heaps that may not share happened and a later operation ran; distinct = distinct hash of (workload, tape).",
            real: vec!["Cloner / deep_clone_* (vm/src/value.rs), can_share_values_with, Generation::can_contain_values_from, RootedValue::re_root, channel send/recv, spawn, Userdata::deep_clone of Reference/Lazy, Gc of every thread, Thread/VM drop"],
            stubbed: vec!["collection trigger (tape)", "freed blocks are poisoned and quarantined", "host = generated operation list"],
            not_exercised: vec!["spawn_on/join between OS threads (C14)"],
            fault_kinds: vec!["gc (forced collection)", "host_collect", "fault_oom_during_clone", "drop_thread", "drop_vm"],
            assumptions: vec![
                "under an injected allocation failure the transfer may fail with an error; ownership and use-after-free oracles are never relaxed",
            ],
            shrink: vec!["/ops"],
            quick: (30000, 150),
            thorough: (200000, 1100),
        }
    }

    fn generate(&self, rng: &mut Rng, _tier: &str) -> Value {
        let nvms = 1 + rng.below(2);
        let mut trees = Vec::new();
        for _ in 0..nvms {
            let n = rng.below(5);
            let mut parents = Vec::new();
            for i in 0..n {
                parents.push(if rng.chance(1, 2) { 0 } else { rng.below(i + 1) });
            }
            trees.push(parents);
        }
        let pick_thread = |rng: &mut Rng, trees: &Vec<Vec<usize>>| {
            let v = rng.below(trees.len());
            (v, rng.below(trees[v].len() + 1))
        };
        let nops = 3 + rng.below(12);
        let mut ops = Vec::new();
        let mut slots = 0usize;
        for _ in 0..nops {
            let roll = rng.below(100);
            let (v, t) = pick_thread(rng, &trees);
            if roll < 25 || slots == 0 {
                let (prog, callable) = value_program(rng);
                ops.push(json!({ "op": "make", "vm": v, "t": t, "prog": prog, "callable": callable }));
                slots += 1;
            } else if roll < 50 {
                let oom = if rng.chance(1, 6) { Some(16 * rng.below(40)) } else { None };
                ops.push(json!({ "op": "reroot", "slot": rng.below(slots), "vm": v, "t": t, "oom": oom }));
                slots += 1;
            } else if roll < 54 {
                ops.push(json!({ "op": "pusharg", "slot": rng.below(slots), "vm": v, "t": t }));
                slots += 1;
            } else if roll < 58 {
                let (prog, callable) = value_program(rng);
                ops.push(json!({ "op": "chan", "vm": v, "t": t, "prog": prog, "callable": callable }));
                slots += 1;
            } else if roll < 62 {
                let (prog, callable) = value_program(rng);
                ops.push(json!({ "op": "spawnon", "hop": rng.below(3), "vm": v, "t": t, "prog": prog, "callable": callable }));
                slots += 1;
            } else if roll < 70 {
                ops.push(json!({ "op": "collect", "vm": v, "t": t }));
            } else if roll < 76 {
                ops.push(json!({ "op": "drop", "slot": rng.below(slots) }));
            } else if roll < 82 {
                ops.push(json!({ "op": "dropthread", "vm": v, "t": t }));
            } else if roll < 85 && nvms > 1 {
                ops.push(json!({ "op": "dropvm", "vm": v }));
            } else if roll < 93 {
                ops.push(json!({ "op": "check", "slot": rng.below(slots) }));
            } else {
                if rng.chance(1, 3) {
                    ops.push(json!({ "op": "force", "slot": rng.below(slots) }));
                } else {
                    ops.push(json!({ "op": "call", "slot": rng.below(slots), "arg": rng.below(4) }));
                }
            }
        }
        json!({ "gc": GcPolicy::generate(rng).to_json(), "trees": trees, "ops": ops })
    }

    fn run(&self, w: &Value) -> Result<(), Violation> {
        gluon_vm::verif::reset_heap_ids();
        let trees: Vec<Vec<usize>> = w["trees"]
            .as_array()
            .map(|ts| {
                ts.iter()
                    .map(|t| t.as_array().map(|p| p.iter().map(|x| x.as_u64().unwrap_or(0) as usize).collect()).unwrap_or_default())
                    .collect()
            })
            .unwrap_or_else(|| vec![vec![]]);
        let mut world = World {
            vms: Vec::new(),
            parents: trees.clone(),
            slots: Vec::new(),
            call_results: BTreeMap::new(),
            globals: Vec::new(),
            origin_vm: BTreeMap::new(),
        };
        for parents in &trees {
            let vm = new_vm(parents)?;
            world.globals.push(vm[0].as_ref().unwrap().verif_global_heap());
            world.vms.push(vm);
        }
        if std::env::var("SIM_DEBUG").is_ok() {
            for (v, vm) in world.vms.iter().enumerate() {
                eprintln!("vm{} global heap {} threads {:?}", v, world.globals[v], vm.iter().map(|t| t.as_ref().map(|t| t.verif_heaps())).collect::<Vec<_>>());
            }
        }
        run::set_gc(GcPolicy::from_json(&w["gc"]), true);
        let empty = Vec::new();
        let ops = w["ops"].as_array().unwrap_or(&empty);
        let mut transfers = 0u64;
        let mut log = Vec::new();
        for (i, op) in ops.iter().enumerate() {
            let kind = op["op"].as_str().unwrap_or("");
            let v = (op["vm"].as_u64().unwrap_or(0) as usize) % world.vms.len();
            let t_req = op["t"].as_u64().unwrap_or(0) as usize;
            let live_thread = |world: &World, v: usize, t: usize| -> Option<(usize, RootedThread)> {
                let vm = &world.vms[v];
                let t = t % vm.len();
                match &vm[t] {
                    Some(th) => Some((t, th.clone())),
                    None => vm[0].clone().map(|r| (0, r)),
                }
            };
            run::set_context(format!("op {} `{}`", i, kind));
            match kind {
                "make" | "chan" | "spawnon" => {
                    let Some((t, thread)) = live_thread(&world, v, t_req) else { continue };
                    let src = op["prog"].as_str().unwrap_or("0");
                    let direct = thread.run_expr::<OpaqueValue<RootedThread, Hole>>(&format!("v{}", i), src);
                    let direct = match direct {
                        Ok((val, _)) => val.into_inner(),
                        Err(e) => {
                            run::count("value_program_failed", 1);
                            log.push(format!("{}: value program failed: {}", kind, e.to_string().lines().next().unwrap_or("")));
                            world.slots.push(None);
                            continue;
                        }
                    };
                    let enc = direct.get_variant().verif_encode_graph();
                    let value = if kind == "chan" || kind == "spawnon" {
                        let hop = op["hop"].as_u64().unwrap_or(0);
                        let csrc = if kind == "chan" { channel_program(src, false) } else { spawn_on_program(src, hop) };
                        run::set_context(format!("op {} `{}`{}", i, kind, if kind == "spawnon" && hop == 1 { " (value handed through an action running on a sibling thread)" } else { "" }));
                        match thread.run_expr::<OpaqueValue<RootedThread, Hole>>(&format!("c{}", i), &csrc) {
                            Ok((val, _)) => {
                                let val = val.into_inner();
                                let enc2 = val.get_variant().verif_encode_graph();
                                transfers += 1;
                                run::count(if kind == "chan" { "transfer_channel" } else if hop == 0 { "transfer_spawn_on_child" } else if hop == 2 { "transfer_join" } else { "transfer_spawn_on_sibling" }, 1);
                                if enc2 != enc {
                                    return Err(Violation::new(
                                        "not-isomorphic",
                                        format!("a value {} differs from the value made directly: sent `{}` received `{}`", if kind == "chan" { "sent from a coroutine to its parent over a channel" } else { "returned by an action spawned on another thread" }, clip(&enc), clip(&enc2)),
                                    ));
                                }
                                val
                            }
                            Err(e) => {
                                return Err(Violation::new(
                                    "transfer-failed",
                                    format!("channel transfer program failed although the value program succeeds: {}", e.to_string().lines().take(3).collect::<Vec<_>>().join(" / ")),
                                ));
                            }
                        }
                    } else {
                        direct
                    };
                    let origin = world.slots.len();
                    world.origin_vm.insert(origin, v);
                    log.push(format!("{} on vm{} t{}: {}", kind, v, t, clip(&enc)));
                    world.slots.push(Some(Slot {
                        vm: v,
                        t,
                        value,
                        encoding: enc,
                        origin,
                        callable: op["callable"].as_bool().unwrap_or(false),
                        lazy_array: src.contains("let mk u = [lz.lazy"),
                    }));
                }
                "reroot" => {
                    let s = op["slot"].as_u64().unwrap_or(0) as usize % world.slots.len().max(1);
                    let Some((t, thread)) = live_thread(&world, v, t_req) else { continue };
                    let Some(Some(slot)) = world.slots.get(s) else {
                        world.slots.push(None);
                        continue;
                    };
                    let oom = op["oom"].as_u64();
                    if let Some(delta) = oom {
                        run::count("fault_oom_during_clone", 1);
                        thread.set_memory_limit(thread.allocated_memory() + delta as usize);
                    }
                    let r = slot.value.re_root(thread.clone());
                    thread.set_memory_limit(usize::MAX);
                    match r {
                        Ok(copy) => {
                            transfers += 1;
                            run::count("transfer_reroot", 1);
                            let enc2 = copy.get_variant().verif_encode_graph();
                            if enc2 != slot.encoding {
                                return Err(Violation::new(
                                    "not-isomorphic",
                                    format!(
                                        "re_root from vm{} t{} to vm{} t{}: original `{}` copy `{}`",
                                        slot.vm, slot.t, v, t, clip(&slot.encoding), clip(&enc2)
                                    ),
                                ));
                            }
                            let new = Slot {
                                vm: v,
                                t,
                                value: copy,
                                encoding: enc2,
                                origin: slot.origin,
                                callable: slot.callable,
                                lazy_array: slot.lazy_array,
                            };
                            log.push(format!("reroot slot {} -> vm{} t{}", s, v, t));
                            world.slots.push(Some(new));
                        }
                        Err(e) => {
                            if oom.is_none() {
                                return Err(Violation::new(
                                    "transfer-failed",
                                    format!("re_root from vm{} t{} to vm{} t{} failed without an injected fault: {}", slot.vm, slot.t, v, t, e),
                                ));
                            }
                            log.push(format!("reroot slot {} failed under memory limit", s));
                            world.slots.push(None);
                        }
                    }
                }
                "pusharg" => {
                    // the foreign handle is pushed as an argument of a function of the target
                    // thread (`Pushable for RootedValue` decides whether and how deep to copy)
                    let s = op["slot"].as_u64().unwrap_or(0) as usize % world.slots.len().max(1);
                    let Some((t, thread)) = live_thread(&world, v, t_req) else { continue };
                    let Some(Some(slot)) = world.slots.get(s) else {
                        world.slots.push(None);
                        continue;
                    };
                    let pair_src = format!("{}(\\x -> {{ a = x, b = x }})\n", gen::PREAMBLE);
                    let call_pair = |on: &RootedThread, arg: &Val, name: &str| -> Result<Val, String> {
                        let (f, _) = on
                            .run_expr::<OpaqueValue<RootedThread, Hole>>(name, &pair_src)
                            .map_err(|e| e.to_string())?;
                        let mut f: OwnedFunction<fn(OpaqueValue<RootedThread, Hole>) -> OpaqueValue<RootedThread, Hole>> =
                            Getable::from_value(on, f.get_variant());
                        f.call(OpaqueValue::from_value(arg.clone()))
                            .map(|v| v.into_inner())
                            .map_err(|e| e.to_string())
                    };
                    let sender_thread = slot.value.vm().clone();
                    let expected = call_pair(&sender_thread, &slot.value, &format!("pair_s{}", i));
                    let got = call_pair(&thread, &slot.value, &format!("pair_r{}", i));
                    match (expected, got) {
                        (Ok(e), Ok(g)) => {
                            transfers += 1;
                            run::count("transfer_pusharg", 1);
                            let (ee, ge) = (e.get_variant().verif_encode_graph(), g.get_variant().verif_encode_graph());
                            if ee != ge {
                                return Err(Violation::new(
                                    "not-isomorphic",
                                    format!("a handle of vm{} t{} pushed as an argument on vm{} t{}: sender side `{}` receiver side `{}`", slot.vm, slot.t, v, t, clip(&ee), clip(&ge)),
                                ));
                            }
                            let origin = world.slots.len();
                            world.origin_vm.insert(origin, v);
                            world.slots.push(Some(Slot { vm: v, t, value: g, encoding: ge, origin, callable: false, lazy_array: false }));
                        }
                        (Ok(_), Err(e)) => {
                            return Err(Violation::new(
                                "transfer-failed",
                                format!("pushing a handle of vm{} t{} as an argument on vm{} t{} failed: {}", slot.vm, slot.t, v, t, e.lines().next().unwrap_or("")),
                            ));
                        }
                        _ => world.slots.push(None),
                    }
                }
                "collect" => {
                    if let Some((_, thread)) = live_thread(&world, v, t_req) {
                        run::count("host_collect", 1);
                        thread.collect();
                    }
                }
                "drop" => {
                    let s = op["slot"].as_u64().unwrap_or(0) as usize;
                    if s < world.slots.len() {
                        world.slots[s] = None;
                    }
                }
                "dropthread" => {
                    let t = t_req % world.vms[v].len();
                    let has_child = world.parents[v]
                        .iter()
                        .enumerate()
                        .any(|(j, p)| *p == t && world.vms[v].get(j + 1).map_or(false, |x| x.is_some()));
                    if t != 0 && world.vms[v][t].is_some() && !has_child {
                        for s in world.slots.iter_mut() {
                            if s.as_ref().map_or(false, |s| s.vm == v && s.t == t) {
                                *s = None;
                            }
                        }
                        world.vms[v][t] = None;
                        run::count("drop_thread", 1);
                        log.push(format!("dropped vm{} t{}", v, t));
                    }
                }
                "dropvm" => {
                    if world.vms.iter().filter(|vm| vm[0].is_some()).count() > 1 && world.vms[v][0].is_some() {
                        for s in world.slots.iter_mut() {
                            if s.as_ref().map_or(false, |s| s.vm == v) {
                                *s = None;
                            }
                        }
                        for t in world.vms[v].iter_mut().rev() {
                            *t = None;
                        }
                        run::count("drop_vm", 1);
                        // every thread of this VM is gone: whoever still touches its global heap got
                        // there through a copy made into another VM (recorded finding)
                        let global = world.globals[v];
                        run::with(|s| {
                            s.tagged_heaps.insert(global, "cross-vm copy used after its source VM was dropped (the copy still points into the source VM's global heap)".to_string())
                        });
                        log.push(format!("dropped vm{}", v));
                    }
                }
                "check" => {
                    let s = op["slot"].as_u64().unwrap_or(0) as usize;
                    if let Some(Some(slot)) = world.slots.get(s) {
                        let enc = slot.value.get_variant().verif_encode_graph();
                        if enc != slot.encoding {
                            return Err(Violation::new(
                                "copy-changed",
                                format!("the value in slot {} (vm{} t{}) changed: was `{}` now `{}`", s, slot.vm, slot.t, clip(&slot.encoding), clip(&enc)),
                            ));
                        }
                    }
                }
                "force" => {
                    // lazy values that crossed heaps unevaluated are forced on the side that holds
                    // them now: the result has to end up in the holder's heap (walker below). Each lazy is
                    // forced once: whether a second force returns the very same object as the first depends
                    // on whether the forcing thread owns the cell, which the property does not fix
                    let s = op["slot"].as_u64().unwrap_or(0) as usize;
                    let mut forced_slot: Option<usize> = None;
                    if let Some(Some(slot)) = world.slots.get(s) {
                        if slot.lazy_array {
                            let thread = slot.value.vm().clone();
                            let fsrc = format!("{}{}(\\a -> [lz.force (array.index a 0), lz.force (array.index a 1)])\n", gen::PREAMBLE, EXTRA);
                            if let Ok((f, _)) = thread.run_expr::<OpaqueValue<RootedThread, Hole>>(&format!("force{}", i), &fsrc) {
                                let mut f: OwnedFunction<fn(OpaqueValue<RootedThread, Hole>) -> OpaqueValue<RootedThread, Hole>> =
                                    Getable::from_value(&thread, f.get_variant());
                                let r = match f.call(OpaqueValue::from_value(slot.value.clone())) {
                                    Ok(v) => format!("OK {}", v.get_variant().verif_encode_graph()),
                                    Err(e) => format!("ERR {}", e.to_string().lines().next().unwrap_or("")),
                                };
                                run::count("lazies_forced_after_transfer", 1);
                                forced_slot = Some(s);
                                let key = (slot.origin, -1);
                                match world.call_results.get(&key) {
                                    Some(expected) if *expected != r => {
                                        return Err(Violation::new(
                                            "closure-result-differs",
                                            format!("forcing the lazies of the copy in slot {} gave `{}`, the original family gave `{}`", s, clip(&r), clip(expected)),
                                        ));
                                    }
                                    Some(_) => {}
                                    None => {
                                        world.call_results.insert(key, r);
                                    }
                                }
                            }
                        }
                    }
                    // forcing changed the copy itself (thunks became values): that is its state now
                    // (within one VM a "copy" made for a thread that may share the owner's values is
                    // the same object, and derived values (pairs made by `pusharg`) contain it: every slot of that VM is re-encoded; copies in another
                    // VM are independent and keep their recorded encoding)
                    if let Some(fs) = forced_slot {
                        let (fvm, forigin) = match world.slots.get(fs) {
                            Some(Some(slot)) => (slot.vm, slot.origin),
                            _ => (usize::MAX, usize::MAX),
                        };
                        for slot in world.slots.iter_mut().flatten() {
                            let _ = forigin;
                            if slot.vm == fvm {
                                slot.encoding = slot.value.get_variant().verif_encode_graph();
                            }
                        }
                    }
                }
                "call" => {
                    let s = op["slot"].as_u64().unwrap_or(0) as usize;
                    let arg = op["arg"].as_i64().unwrap_or(0);
                    if let Some(Some(slot)) = world.slots.get(s) {
                        if slot.callable {
                            if world.origin_vm.get(&slot.origin) != Some(&slot.vm) {
                                run::set_context(format!("op {} `call` of a {{{{cross-vm closure}}}} copied from another vm", i));
                            }
                            let thread = slot.value.vm().clone();
                            let mut f: OwnedFunction<fn(i64) -> OpaqueValue<RootedThread, Hole>> =
                                Getable::from_value(&thread, slot.value.get_variant());
                            let r = match f.call(arg) {
                                Ok(v) => format!("OK {}", v.get_variant().verif_encode_graph()),
                                Err(e) => format!("ERR {}", e.to_string().lines().next().unwrap_or("")),
                            };
                            run::count("calls", 1);
                            let key = (slot.origin, arg);
                            match world.call_results.get(&key) {
                                Some(expected) if *expected != r => {
                                    return Err(Violation::new(
                                        "closure-result-differs",
                                        format!("calling the copy in slot {} with {} gave `{}`, the original family gave `{}`", s, arg, clip(&r), clip(expected)),
                                    ));
                                }
                                Some(_) => {}
                                None => {
                                    world.call_results.insert(key, r);
                                }
                            }
                        }
                    }
                }
                _ => {}
            }
            run::gc_active(false);
            check_all(&world, &format!("after op {} ({})", i, kind))?;
            run::gc_active(true);
        }
        run::gc_active(false);
        // final: every surviving copy still encodes the same
        for (s, slot) in world.slots.iter().enumerate() {
            if let Some(slot) = slot {
                run::set_context(format!("final check of slot {}", s));
                let enc = slot.value.get_variant().verif_encode_graph();
                if enc != slot.encoding {
                    return Err(Violation::new(
                        "copy-changed",
                        format!("at the end the value in slot {} (vm{} t{}) changed: was `{}` now `{}`", s, slot.vm, slot.t, clip(&slot.encoding), clip(&enc)),
                    ));
                }
            }
        }
        check_all(&world, "final")?;
        run::with(|s| {
            s.stats.nontrivial = transfers > 0 && ops.len() > 2;
            s.stats.sample = Some(json!({ "trees": w["trees"], "gc": w["gc"], "log": log }));
        });
        world.slots.clear();
        for vm in world.vms.iter_mut() {
            for t in vm.iter_mut().rev() {
                *t = None;
            }
        }
        Ok(())
    }
}

fn clip(s: &str) -> String {
    if s.len() > 240 {
        let mut e = 240;
        while !s.is_char_boundary(e) {
            e -= 1;
        }
        format!("{}…", &s[..e])
    } else {
        s.to_string()
    }
}
