//! SplitMix64 + xoshiro256**: the only source of randomness in the simulator.

#[inline]
pub fn splitmix(x: &mut u64) -> u64 {
    *x = x.wrapping_add(0x9E37_79B9_7F4A_7C15);
    let mut z = *x;
    z = (z ^ (z >> 30)).wrapping_mul(0xBF58_476D_1CE4_E5B9);
    z = (z ^ (z >> 27)).wrapping_mul(0x94D0_49BB_1331_11EB);
    z ^ (z >> 31)
}

/// Mixes several integers into one seed
pub fn mix(parts: &[u64]) -> u64 {
    let mut s = 0x243F_6A88_85A3_08D3u64;
    for p in parts {
        s ^= *p;
        s = splitmix(&mut s);
    }
    s
}

pub fn hash_str(s: &str) -> u64 {
    let mut h = 0xcbf2_9ce4_8422_2325u64;
    for b in s.bytes() {
        h ^= b as u64;
        h = h.wrapping_mul(0x100_0000_01b3);
    }
    h
}

pub fn hash_bytes(h: u64, s: &[u8]) -> u64 {
    let mut h = h ^ 0xcbf2_9ce4_8422_2325u64;
    for b in s {
        h ^= *b as u64;
        h = h.wrapping_mul(0x100_0000_01b3);
    }
    h
}

#[derive(Clone, Debug)]
pub struct Rng {
    s: [u64; 4],
}

impl Rng {
    pub fn new(seed: u64) -> Rng {
        let mut x = seed;
        let s = [
            splitmix(&mut x),
            splitmix(&mut x),
            splitmix(&mut x),
            splitmix(&mut x),
        ];
        Rng { s }
    }

    pub fn next_u64(&mut self) -> u64 {
        let s = &mut self.s;
        let result = s[1].wrapping_mul(5).rotate_left(7).wrapping_mul(9);
        let t = s[1] << 17;
        s[2] ^= s[0];
        s[3] ^= s[1];
        s[1] ^= s[2];
        s[0] ^= s[3];
        s[2] ^= t;
        s[3] = s[3].rotate_left(45);
        result
    }

    /// Uniform in `0..n` (n > 0)
    pub fn below(&mut self, n: usize) -> usize {
        debug_assert!(n > 0);
        (self.next_u64() % n as u64) as usize
    }

    /// Inclusive range
    pub fn range(&mut self, lo: i64, hi: i64) -> i64 {
        debug_assert!(lo <= hi);
        lo + (self.next_u64() % ((hi - lo) as u64 + 1)) as i64
    }

    /// True with probability `num/den`
    pub fn chance(&mut self, num: u32, den: u32) -> bool {
        (self.next_u64() % den as u64) < num as u64
    }

    pub fn pick<'a, T>(&mut self, xs: &'a [T]) -> &'a T {
        &xs[self.below(xs.len())]
    }
}
