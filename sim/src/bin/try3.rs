use gluon::ThreadExt;
use gluon::query::CompilationBase;
use gluon::vm::api::{Hole, OpaqueValue};
use gluon::RootedThread;
fn main() {
    let vm = gluon::new_vm();
    vm.get_database_mut().set_implicit_prelude(false);
    let mods = [("m0","let a = import! m1\n{ v = a.v }"),("m1","let a = import! m2\n{ v = a.v }"),("m2","let a = import! m0\nlet b = import! m2\n{ v = 1 }"),("m3","let a = import! m3\n{v = 1}")];
    for (n,s) in mods { vm.get_database_mut().add_module(n.to_string(), s); }
    for e in ["import! m0", "import! m1", "import! m2", "import! m3", "let a = import! m3\nlet b = import! m1\n1"] {
        match vm.run_expr::<OpaqueValue<RootedThread, Hole>>("e", e) { Ok(_) => println!("OK"), Err(e) => println!("ERR {}\n---", e) }
    }
}
