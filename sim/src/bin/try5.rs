// Does dropping a VM give its memory back? (resident set after creating and dropping VMs)
use gluon::ThreadExt;
fn rss() -> u64 {
    std::fs::read_to_string("/proc/self/statm").ok().and_then(|s| s.split_whitespace().nth(1).and_then(|x| x.parse::<u64>().ok())).map_or(0, |p| p * 4096)
}
fn main() {
    let n: usize = std::env::args().nth(1).and_then(|s| s.parse().ok()).unwrap_or(100);
    let run = std::env::args().nth(2).is_some();
    let r0 = rss();
    for i in 0..n {
        let vm = gluon::new_vm();
        vm.get_database_mut().set_implicit_prelude(false);
        if run {
            let prog = std::env::args().nth(2).unwrap().replace("\\n", "\n");
            vm.get_database_mut().set_run_io(true);
            if let Err(e) = vm.run_expr::<gluon::vm::api::OpaqueValue<gluon::RootedThread, gluon::vm::api::Hole>>("t", &prog) { if i == 0 { println!("ERR {}", e); } }
        }
        drop(vm);
        if i % (n / 5).max(1) == 0 {
            println!("after {} VMs: rss {} KB (+{} KB)", i + 1, rss() / 1024, (rss() - r0) / 1024);
        }
    }
    println!("end: +{} KB for {} VMs = {} KB per VM", (rss() - r0) / 1024, n, (rss() - r0) / 1024 / n as u64);
}
