// Where does a worker process grow? runs an engine in-process and prints resident set and quarantine
use gluon_sim::{batch, engine, props};
fn rss() -> u64 {
    std::fs::read_to_string("/proc/self/statm").ok().and_then(|s| s.split_whitespace().nth(1).and_then(|x| x.parse::<u64>().ok())).map_or(0, |p| p * 4096)
}
fn main() {
    let prop = std::env::args().nth(1).unwrap_or("C17".into());
    let n: u64 = std::env::args().nth(2).and_then(|s| s.parse().ok()).unwrap_or(600);
    let e = props::engine(&prop).unwrap();
    for i in 0..n {
        let seed = batch::run_seed(1, &prop, i);
        let (o, _) = engine::execute(e, seed, "quick", None, None, None);
        if i % (n / 6).max(1) == 0 {
            println!("run {} viol={} rss {} MB quarantine {:?}", i, o.violation.is_some(), rss() / 1_000_000, gluon_vm::verif::quarantine_stats());
        }
    }
}
