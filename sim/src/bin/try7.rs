// After a failed host-side call of a gluon function, does the next call on the same thread work?
use gluon::vm::api::{FunctionRef, Getable, Hole, OpaqueValue, OwnedFunction};
use gluon::{RootedThread, ThreadExt};
fn main() {
    let vm = gluon::new_vm();
    vm.get_database_mut().set_implicit_prelude(false);
    let (f, _) = vm.run_expr::<OpaqueValue<RootedThread, Hole>>("f", "\\x y -> x #Int/ y").unwrap();
    let mut f: OwnedFunction<fn(i64, i64) -> i64> = Getable::from_value(&vm, f.get_variant());
    println!("stack before {:?}", vm.verif_stack_len());
    println!("call(8, 2) = {:?}", f.call(8, 2).map_err(|e| e.to_string()));
    println!("call(1, 0) = {:?}", f.call(1, 0).map_err(|e| e.to_string()));
    println!("stack after the failed call {:?}", vm.verif_stack_len());
    println!("call(8, 2) = {:?}", f.call(8, 2).map_err(|e| e.to_string()));
    println!("stack {:?}", vm.verif_stack_len());
    println!("run_expr 1+2 = {:?}", vm.run_expr::<i64>("g", "1 #Int+ 2").map(|x| x.0).map_err(|e| e.to_string()));
    println!("stack {:?}", vm.verif_stack_len());
    let _: Option<FunctionRef<fn(i64) -> i64>> = None;
}
