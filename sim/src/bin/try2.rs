use gluon::ThreadExt;
use gluon::compiler_pipeline::*;
fn main() {
    let vm = gluon::new_vm();
    vm.get_database_mut().set_implicit_prelude(false);
    vm.load_script("m0", "{ a = 1, f = \\x -> x #Int+ 1 }").unwrap();
    let src = std::env::args().nth(1).unwrap().replace("\\n", "\n");
    let mut buffer = Vec::new();
    {
        let mut serializer = serde_json::Serializer::new(&mut buffer);
        futures::executor::block_on(vm.compile_to_bytecode("test", &src, &mut serializer)).unwrap();
    }
    println!("{}", String::from_utf8_lossy(&buffer));
    let r = {
        let mut de = serde_json::Deserializer::from_slice(&buffer);
        futures::executor::block_on(Precompiled(&mut de).run_expr(&mut vm.module_compiler(&mut vm.get_database()), &*vm, "test", "", ()))
    };
    match r { Ok(v) => println!("run_expr OK {}", gluon_sim::render::render(v.value.get_variant())), Err(e) => println!("run_expr ERR {}", e) }
    let r = {
        let mut de = serde_json::Deserializer::from_reader(std::io::Cursor::new(buffer.clone()));
        futures::executor::block_on(vm.load_bytecode("test2", &mut de))
    };
    println!("load_bytecode {:?}", r.map_err(|e| e.to_string()));
}
