use std::path::PathBuf;

use gluon_sim::{batch, engine, props, run};

fn arg(args: &[String], name: &str) -> Option<String> {
    args.iter()
        .position(|a| a == name)
        .and_then(|i| args.get(i + 1))
        .cloned()
}

fn main() {
    let args: Vec<String> = std::env::args().collect();
    let cmd = args.get(1).map(|s| s.as_str()).unwrap_or("");
    engine::install_panic_hook();
    run::install_hooks();
    gluon_sim::sched::install();
    let base: u64 = arg(&args, "--base")
        .or_else(|| std::env::var("VERIF_SEED").ok())
        .and_then(|s| s.parse().ok())
        .unwrap_or(1);
    let code = match cmd {
        "worker" => {
            let prop = arg(&args, "--prop").expect("--prop");
            let e = props::engine(&prop).expect("unknown property");
            let a = batch::WorkerArgs {
                prop,
                tier: arg(&args, "--tier").unwrap_or_else(|| "quick".into()),
                base,
                from: arg(&args, "--from").and_then(|s| s.parse().ok()).unwrap_or(0),
                to: arg(&args, "--to").and_then(|s| s.parse().ok()).unwrap_or(1),
                stride: arg(&args, "--stride").and_then(|s| s.parse().ok()).unwrap_or(1),
                out: PathBuf::from(arg(&args, "--out").expect("--out")),
                deadline: arg(&args, "--deadline").and_then(|s| s.parse().ok()).unwrap_or(0),
            };
            batch::worker(e, &a)
        }
        "replay" => {
            let file = PathBuf::from(args.get(2).expect("replay file"));
            let text = std::fs::read_to_string(&file).expect("read replay");
            let v: serde_json::Value = serde_json::from_str(&text).expect("json");
            let prop = v["property"].as_str().expect("property").to_string();
            let e = props::engine(&prop).expect("unknown property");
            let res = arg(&args, "--result").map(PathBuf::from);
            let code = batch::replay(e, &file, res.as_deref());
            if code == 1 {
                println!("VIOLATION property={} replay={}", prop, file.display());
            }
            code
        }
        "batch" => {
            let prop = arg(&args, "--prop").expect("--prop");
            let e = props::engine(&prop).expect("unknown property");
            let tier = arg(&args, "--tier")
                .or_else(|| std::env::var("VERIF_TIER").ok())
                .unwrap_or_else(|| "quick".into());
            let info = e.info();
            let (runs, secs) = if tier == "thorough" { info.thorough } else { info.quick };
            let a = batch::BatchArgs {
                prop,
                tier,
                base,
                runs: arg(&args, "--runs").and_then(|s| s.parse().ok()).unwrap_or(runs),
                secs: arg(&args, "--secs").and_then(|s| s.parse().ok()).unwrap_or(secs),
                workers: arg(&args, "--workers").and_then(|s| s.parse().ok()).unwrap_or(16),
            };
            batch::batch(e, &a)
        }
        "sites" => {
            for (site, kind) in gluon_sim::sitelint::classify() {
                println!("{:40} {:?}", site, kind);
            }
            0
        }
        "selfcheck" => {
            let prop = arg(&args, "--prop").expect("--prop");
            let e = props::engine(&prop).expect("unknown property");
            let n = arg(&args, "--runs").and_then(|s| s.parse().ok()).unwrap_or(200);
            let tier = arg(&args, "--tier").unwrap_or_else(|| "quick".into());
            batch::selfcheck(e, &prop, &tier, base, n)
        }
        "obs" => {
            // observation of a C16 subject in this (fresh) process
            let file = args.get(2).expect("workload file");
            let w: serde_json::Value = serde_json::from_str(&std::fs::read_to_string(file).expect("read")).expect("json");
            print!("{}\n<<END>>\n", gluon_sim::props::c16::observe_in_this_process(&w));
            0
        }
        "primsweep" => {
            let from = arg(&args, "--from").and_then(|s| s.parse().ok()).unwrap_or(0);
            gluon_sim::props::c06::primsweep(from)
        }
        "one" => {
            // run one index in-process, verbosely
            let prop = arg(&args, "--prop").expect("--prop");
            let e = props::engine(&prop).expect("unknown property");
            let i: u64 = arg(&args, "--i").and_then(|s| s.parse().ok()).unwrap_or(0);
            let seed = arg(&args, "--seed")
                .and_then(|s| s.parse().ok())
                .unwrap_or_else(|| batch::run_seed(base, &prop, i));
            let tier = arg(&args, "--tier").unwrap_or_else(|| "quick".into());
            let (o, _) = engine::execute(e, seed, &tier, None, None, None);
            if args.iter().any(|a| a == "--show") {
                println!("{}", serde_json::to_string_pretty(&o.workload).unwrap());
            }
            println!("seed {} decisions {} fired {:?} counters {:?} nontrivial {}", seed, o.decisions, o.fired, o.stats.counters, o.stats.nontrivial);
            match o.violation {
                Some(v) => {
                    println!("VIOL {}\n{}", v.signature(&prop), v.detail);
                    1
                }
                None => 0,
            }
        }
        _ => {
            eprintln!("usage: sim batch|worker|replay|selfcheck|one ... (properties: {:?})", props::ALL);
            2
        }
    };
    std::process::exit(code);
}
