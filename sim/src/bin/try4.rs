// Is the second import of one source evaluated while the first one's body is suspended?
use gluon::vm::api::{Hole, OpaqueValue};
use gluon::{query::CompilationBase, RootedThread, ThreadExt};
use gluon_sim::{exec, externs, run};
fn main() {
    run::begin(gluon_sim::tape::Tape::seeded(1));
    let vm = gluon::new_vm();
    vm.get_database_mut().set_implicit_prelude(false);
    vm.get_database_mut().set_run_io(true);
    externs::install(&vm);
    vm.get_database_mut().add_module("ma".into(), "let sim = import! sim\nlet w = sim.wait 1\nlet t = sim.tick \"ma\"\n{ v = w #Int+ t }\n");
    vm.get_database_mut().add_module("mb".into(), "let sim = import! sim\nlet t = sim.tick \"mb\"\n{ v = \"str\", t }\n");
    let fut = vm.run_expr_async::<OpaqueValue<RootedThread, Hole>>("e", "let a = import! ma\nlet b = import! mb\n{ a = a.v, b = b.v }\n");
    let mut polls = 0;
    let out = exec::drive_with(fut, 1000, |_| {
        polls += 1;
        println!("pending #{}: ticks so far {:?}, stack {:?}", polls, run::with(|s| s.ticks.clone()), vm.verif_stack_len());
        if polls == 2 {
            externs::fire(1);
        }
        exec::Next::Poll
    });
    match out {
        exec::Outcome::Ready(Ok((v, t)), _) => println!("OK {} : {}", gluon_sim::render::render(v.get_variant()), t),
        exec::Outcome::Ready(Err(e), _) => println!("ERR {}", e),
        _ => println!("other"),
    }
}
