use gluon::ThreadExt;
use gluon::vm::api::{Hole, OpaqueValue};
use gluon::RootedThread;
use gluon_sim::render;
fn main() {
    let vm = gluon::new_vm();
    vm.get_database_mut().implicit_prelude(std::env::var("TRY_PRELUDE").is_ok());
    vm.get_database_mut().run_io(true);
    vm.load_script("simtypes", "type Tree = | Leaf Int | Node Tree String Tree | Tip\n{ Tree }\n").unwrap();
    for (i, p) in std::env::args().skip(1).enumerate() {
        let p = p.replace("\\n", "\n");
        match vm.run_expr::<OpaqueValue<RootedThread, Hole>>(&format!("t{}", i), &p) {
            Ok((v, t)) => println!("OK {} : {}  stack={:?}", render::render(v.get_variant()), t, vm.verif_stack_len()),
            Err(e) => println!("ERR {}", e.to_string().lines().take(std::env::var("TRY_LINES").ok().and_then(|s| s.parse().ok()).unwrap_or(6)).collect::<Vec<_>>().join(" | ")),
        }
    }
}
