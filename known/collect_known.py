#!/usr/bin/env python3
"""Regenerates the committed replay file of every recorded finding: runs the quick batch with the
known-findings list ignored, picks for each signature prefix one reproducing replay file and stores
it as known/<prop>-<n>.json (referenced from known_findings.json)."""
import json, os, subprocess, glob, shutil, sys
V = "/verif"
kf = json.load(open(V + "/known_findings.json"))
props = sorted({f["property"] for f in kf["findings"]})
if len(sys.argv) > 1:
    props = sys.argv[1:]
for prop in props:
    shutil.rmtree(V + "/replays", ignore_errors=True)
    env = dict(os.environ, VERIF_IGNORE_KNOWN="1")
    subprocess.run([V + "/sim/target/debug/sim", "batch", "--prop", prop, "--tier", "quick"], env=env,
                   stdout=subprocess.DEVNULL, stderr=subprocess.DEVNULL)
    files = sorted(glob.glob(V + "/replays/%s-*.json" % prop))
    n = 0
    for f in kf["findings"]:
        if f["property"] != prop:
            continue
        best = None
        for path in files:
            r = json.load(open(path))
            if r.get("signature", "").startswith(f["signature_prefix"]):
                size = len(json.dumps(r))
                if best is None or size < best[0]:
                    best = (size, path)
        if best:
            n += 1
            dst = "known/%s-%d.json" % (prop, n)
            shutil.copy(best[1], V + "/" + dst)
            f["replay"] = dst
            print(prop, "->", dst, f["signature_prefix"][:70])
        else:
            print(prop, "NO REPLAY for", f["signature_prefix"][:90])
json.dump(kf, open(V + "/known_findings.json", "w"), indent=1)
