#!/usr/bin/env python3
"""Replays every committed known-finding file and checks that it still reproduces the signature it
is listed under (run after any change to an engine's workload format)."""
import json, subprocess, sys
d = json.load(open('/verif/known_findings.json'))
bad = 0
for f in d['findings']:
    r = f.get('replay')
    if not r:
        print('NO REPLAY', f['property'], f['signature_prefix'][:60]); bad += 1; continue
    p = subprocess.run(['/verif/sim/target/debug/sim', 'replay', '/verif/' + r], capture_output=True, text=True)
    res = next((l for l in p.stdout.splitlines() if l.startswith('RESULT')), '')
    if not res and p.returncode not in (0, 1, 2):
        ok = '/crash/' in f['signature_prefix']   # the replay process died: crash findings
        res = 'process died with status %s' % p.returncode
    else:
        ok = ('viol ' + f['signature_prefix'][:60]) in res
    print('OK ' if ok else 'BAD', f['property'], r, '|', res[:100])
    bad += 0 if ok else 1
sys.exit(1 if bad else 0)
