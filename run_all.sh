#!/bin/bash
# run_all.sh [tier]  — runs every claimed check once and prints its exit code (0 = held, 1 = violation,
# 2 = harness error). Convenience for the maintainer of /verif; MANIFEST.json lists the single commands.
tier=${1:-quick}
cd "$(dirname "$0")"
rc=0
for p in $(python3 -c "import json;print(' '.join(c['property_id'] if 'property_id' in c else c['id'] for c in json.load(open('MANIFEST.json'))['checks']))" 2>/dev/null); do
  ./check.sh $p $tier > /var/tmp/run_all-$p.log 2>&1
  code=$?
  echo "$p $tier exit=$code $(grep -c '^KNOWN-FINDING' /var/tmp/run_all-$p.log) known-finding line(s) $(grep -E '^C[0-9]+ (quick|thorough):' /var/tmp/run_all-$p.log | cut -c1-90)"
  grep -E "^(VIOLATION|HARNESS-ERROR)" /var/tmp/run_all-$p.log | cut -c1-300
  [ $code -ne 0 ] && rc=1
done
exit $rc
